"""R-DIM: a dimension check dominates the element accesses of multi-operand matvec functions.

Clause (property C15, "non-conforming operands raise an exception instead of reading
outside the operands"): for every function defined in lib/matvec/*.h that touches the
elements of two or more *operands* (``this`` and parameters whose class is MemRep or
derived from it; ``this`` of a class that aggregates such objects, e.g. SVD, counts as
one operand too), every touched operand is tied to the others by a *conformance site*:

  * a comparison ``dim(X) != dim(Y)`` / ``dim(X) == dim(Y)`` whose mismatch branch ends,
    on every CFG path, in ``throw Exc(Exception::BadRank, ...)`` or in a resize of one
    operand to the other's dimension (``if (dim() != Z.dim()) Z.reset(dim(), ..)``);
  * an unconditional resize / dimension assignment (``eigvals.reset(dim())``,
    ``sz = x.sz``, a base-class constructor initialiser fed with the other operand's
    dimensions);
  * a call that hands both operands to a function whose own summary ties the two
    corresponding parameters (``this->add(M, T)``, ``a.dot(b)``).

A site ties X and Y when it dominates (clang CFG) every element access of X or every
element access of Y.  The verdict of a function is OK when all touched operands are in
one component of the graph of valid ties.

What is an element access: a dereference / subscript of a pointer that was obtained from
an operand (``begin()``, ``end()``, ``operator[]`` returning a pointer, a pointer field),
tracked through locals flow-insensitively; a call of a member that itself touches
``this`` (transitively, by summary; pure virtual ``operator()`` by table); handing an
operand or such a pointer to a function that touches it.  Obtaining ``begin()`` without
dereferencing is *not* an access, so moving pointer set-up above the check stays silent.

Not decided: that the *right* dimensions are compared (rows vs cols), loop bounds, index
arithmetic inside the accessors.
"""
import re

import engine
import facts as F
from facts import AnalysisBroken, strip_targs

RULE = "R-DIM"

_CASTS = ("CXXStaticCastExpr", "CStyleCastExpr", "CXXFunctionalCastExpr", "ImplicitCastExpr",
          "CXXReinterpretCastExpr", "CXXConstCastExpr", "CXXDynamicCastExpr")
_INT_TYPES = {"int", "unsigned int", "long", "unsigned long", "short", "unsigned short",
              "long long", "unsigned long long", "char", "unsigned char", "signed char"}
_BRANCH_TERMS = ("IfStmt", "BinaryOperator", "ConditionalOperator", "WhileStmt", "ForStmt", "DoStmt")


def _cv(t):
    return re.sub(r"\b(const|volatile)\b", "", t or "").strip()


def is_ptr(t):
    return _cv(t).rstrip("& ").endswith("*")


def is_int(t):
    return _cv(t).rstrip("& ").strip() in _INT_TYPES


def tclass(t):
    """Template-stripped class name of a value / reference type, None for pointers."""
    s = _cv(t).rstrip()
    while s.endswith("&"):
        s = s[:-1].rstrip()
    if not s or s.endswith("*"):
        return None
    return strip_targs(s).strip()


def call_parts(n):
    """(receiver expression or None, argument expressions) of a call node."""
    k = n.get("k")
    c = n.get("c") or []
    if k == "CXXMemberCallExpr":
        return F.call_object(n), c[1:]
    if k == "CXXOperatorCallExpr":
        if n.get("memberOp"):
            return (c[1] if len(c) > 1 else None), c[2:]
        return None, c[1:]
    if k == "CallExpr":
        return None, c[1:]
    if k in ("CXXConstructExpr", "CXXTemporaryObjectExpr"):
        return None, c
    return None, []


SHAPE = {"vec": {"n"}, "square": {"d"}, "general": {"r", "c"}, "flat": {"s"}}


def norm_comp(kind, raw):
    """component of an operand of the given (kind, packed) that a raw getter/field component denotes"""
    k, packed = kind
    if raw in ("x", "*"):
        return raw
    if k == "vec":
        return "n" if raw in ("d", "s", "n") else "x"
    if k == "square":
        if raw in ("r", "c", "d"):
            return "d"
        return "d" if (raw in ("s", "n") and packed) else "s"
    if k == "general":
        return raw if raw in ("r", "c") else ("s" if raw in ("s", "n") else "x")
    return "s" if raw in ("s", "n") else "x"


def translate(comp, callee_kind, caller_kind):
    """a component compared inside a callee, seen from the static class of the caller's operand"""
    if comp in ("x", "*"):
        return comp
    if comp in ("n", "s") or (comp == "d" and callee_kind[0] == "vec"):
        return norm_comp(caller_kind, "s")          # the flat element count
    return norm_comp(caller_kind, comp)


class Summary:
    def __init__(self):
        self.slots = []          # 'this', 'p0', 'p1', ...
        self.names = {}          # slot -> display name
        self.touched = {}        # slot -> [touch nodes]
        self.ties = []           # (X, Y, site node or None (= function entry), kind, valid, pairs)
        self.checks = 0          # recognised BadRank comparisons
        self.comp = {}
        self.kind = {}           # slot -> (kind, flat count determines shape)
        self.untied = {}         # (X, Y) -> why the dominating ties do not cover the shapes

    def pairs(self, x, y):
        """component pairs (component of x, component of y) of the dominating ties between x and y"""
        out = set()
        for a, b, site, kind, valid, prs in self.ties:
            if not valid:
                continue
            if (a, b) == (x, y):
                out |= set(prs)
            elif (a, b) == (y, x):
                out |= {(q, p) for p, q in prs}
        return out

    def shape_tied(self, x, y):
        """do the compared components cover what two operands of these shapes need?"""
        P = self.pairs(x, y)
        sx, sy = SHAPE[self.kind[x][0]], SHAPE[self.kind[y][0]]
        good = {(a, b) for a, b in P if (a == "*" or a in sx) and (b == "*" or b in sy)}
        if not good:
            if P:
                self.untied[(x, y)] = ("only %s compared - not a component of the shape of a %s"
                                       % (sorted(P), "/".join(sorted({self.kind[x][0], self.kind[y][0]}))))
            return False
        if self.kind[x][0] == "general" and self.kind[y][0] == "general" and not any("*" in g for g in good):
            like = {g for g in good if g[0] == g[1]}
            if len(like) == 1 and not (good - like) and ("s", "s") not in P:
                self.untied[(x, y)] = ("only the %s are compared with each other: an element-wise operation on two "
                                       "general matrices needs rows and cols" % ("rows" if ("r", "r") in like else "cols"))
                return False
        return True

    def finish(self):
        parent = {s: s for s in self.slots}

        def find(a):
            while parent[a] != a:
                parent[a] = parent[parent[a]]
                a = parent[a]
            return a
        done = set()
        for x, y, site, kind, valid, prs in self.ties:
            if valid and (x, y) not in done and (y, x) not in done:
                done.add((x, y))
                if self.shape_tied(x, y):
                    parent[find(x)] = find(y)
        self.comp = {s: find(s) for s in self.slots}

    def connected(self, a, b):
        return a in self.comp and b in self.comp and self.comp[a] == self.comp[b]


class Model:
    def __init__(self, fx, table):
        self.fx = fx
        self.t = table
        root = table["root_class"]
        fx.cls(root)
        self.scope = table["scope_prefix"]
        # Base classes: the exported class records, completed by what the compiler accepted:
        # a member of class O selected on an object of static class C means O is C or a base
        # of C.  (The exporter has no class record for templates that are instantiated only by
        # the explicit instantiations of the driver TU - BandMat, GSO, Array.)
        self._bases = {}
        for q in fx.classes:
            self._bases.setdefault(q, set()).update(fx.bases_of(q))
        for fn in fx.functions.values():
            if not fn.file.startswith(self.scope) or fn.body is None:
                continue
            for n in fn.walk():
                if n.get("k") != "MemberExpr" or not n.get("owner") or not n.get("c"):
                    continue
                bt = n["c"][0].get("t", "")
                if n.get("arrow"):
                    bt = _cv(bt).rstrip()
                    bt = bt[:-1] if bt.endswith("*") else bt
                c, o = tclass(bt), strip_targs(n["owner"])
                if c and o and c != o:
                    self._bases.setdefault(c, set()).add(o)
        self.hier = {root} | {c for c in self._bases if root in self.bases(c)}
        self.composite = set()
        for q, rec in fx.classes.items():
            if not rec.get("file", "").startswith(self.scope) or q in self.hier:
                continue
            if any(tclass(f["t"]) in self.hier for f in rec.get("fields", [])):
                self.composite.add(q)
        self.getters = set(table["dimension_getters"])
        self.resizers = set(table["resizers"])
        self.accessors = set(table["pure_virtual_accessors"])
        self.badrank = table["bad_rank_enumerator"]
        self._dimfields = {}
        for cq, names in table["dimension_fields"].items():
            rec = fx.cls(cq)
            have = {f["name"] for f in rec.get("fields", [])}
            for nme in names:
                if nme not in have:
                    raise AnalysisBroken("R-DIM table: %s has no field %s any more" % (cq, nme))
        for g in self.getters:
            if not any(f.name == g and f.cls and strip_targs(f.cls) in self.hier
                       for f in fx.functions.values()):
                raise AnalysisBroken("R-DIM table: no dimension getter named %s() in the MemRep hierarchy" % g)
        self.memo = {}
        self.active = set()

    def bases(self, cq):
        out, todo = set(), [cq]
        while todo:
            c = todo.pop()
            for b in self._bases.get(c, ()):
                if b not in out:
                    out.add(b)
                    todo.append(b)
        return out

    def dimfields(self, cq):
        if cq not in self._dimfields:
            s = set()
            for c in [cq] + sorted(self.bases(cq)):
                s |= set(self.t["dimension_fields"].get(c, []))
            self._dimfields[cq] = s
        return self._dimfields[cq]

    def kind(self, cq):
        t = self.t
        line = {cq} | self.bases(cq)
        if cq in t["aggregates_general"]:
            return ("general", False)
        if t["vector_root"] in line:
            return ("vec", True)
        if line & set(t["square_classes"]):
            return ("square", bool(line & set(t["flat_count_determines_shape"])))
        if t["matrix_root"] in line:
            return ("general", False)
        return ("flat", True)

    def field_comp(self, cq, member):
        for c in [cq] + sorted(self.bases(cq)):
            r = self.t["field_component"].get(c, {}).get(member)
            if r:
                return r
        return None

    def badrank_blocks(self, fn, depth=2):
        """blocks of fn that certainly raise Exception::BadRank: a throw expression naming the
        enumerator, or a call of a function all of whose paths end in such a block"""
        cfg = fn.cfg
        out = set()
        for n in fn.walk():
            hit = False
            if n.get("k") == "CXXThrowExpr":
                hit = any(x.get("k") == "DeclRefExpr" and x["ref"].get("dk") == "enumconst"
                          and x["ref"].get("qn") == self.badrank for x in F.walk(n))
            elif depth > 0 and n.get("k") in ("CallExpr", "CXXMemberCallExpr"):
                g = self.fx.functions.get(n.get("calleeKey"))
                hit = g is not None and g.body is not None and self.always_badrank(g, depth - 1)
            if hit:
                p = cfg.block_of(n)
                if p:
                    out.add(p[0])
        return out

    def always_badrank(self, fn, depth):
        key = ("abr", fn.key, depth)
        if key not in self.memo:
            self.memo[key] = False
            blocks = self.badrank_blocks(fn, depth)
            self.memo[key] = bool(blocks) and not fn.cfg.paths_avoiding(fn.cfg.entry, blocks, {fn.cfg.exit})
        return self.memo[key]

    def is_operand_class(self, cq):
        return cq in self.hier or cq in self.composite

    def summary(self, fn):
        if fn.key in self.memo:
            return self.memo[fn.key]
        if fn.key in self.active or fn.body is None:
            return None
        self.active.add(fn.key)
        try:
            s = Analysis(self, fn).run()
        finally:
            self.active.discard(fn.key)
        self.memo[fn.key] = s
        return s


class Analysis:
    def __init__(self, model, fn):
        self.m = model
        self.fn = fn
        self.s = Summary()
        self.param_slot = {}      # decl id -> slot
        self.slot_cls = {}        # slot -> class
        self.alias = {}           # local reference decl id -> slot
        self.ptr = {}             # local decl id -> set(slots)
        self.dim = {}             # local decl id -> set(slots)

    # ----------------------------------------------------------------- operands
    def _operands(self):
        fn, m, s = self.fn, self.m, self.s
        cls = strip_targs(fn.cls) if fn.cls else None
        if cls and m.is_operand_class(cls):
            s.slots.append("this")
            s.names["this"] = "this"
            self.slot_cls["this"] = cls
        for i, p in enumerate(fn.params):
            c = tclass(p["t"])
            if c in m.hier:
                slot = "p%d" % i
                s.slots.append(slot)
                s.names[slot] = p["name"] or slot
                self.slot_cls[slot] = c
                self.param_slot[p["decl"]] = slot
        for sl in s.slots:
            s.touched[sl] = []
            s.kind[sl] = m.kind(self.slot_cls[sl])

    def operand_of(self, e):
        """slot of the operand object an expression denotes, else None"""
        if e is None:
            return None
        k = e.get("k")
        c = e.get("c") or []
        if k == "CXXThisExpr":
            return "this" if "this" in self.slot_cls else None
        if k == "UnaryOperator" and e.get("op") == "*" and c and c[0].get("k") == "CXXThisExpr":
            return "this" if "this" in self.slot_cls else None
        if k == "DeclRefExpr":
            d = e["ref"].get("decl")
            if d in self.param_slot:
                return self.param_slot[d]
            return self.alias.get(d)
        if k == "MemberExpr" and e.get("mk") == "field" and c:
            # a MemRep-hierarchy sub-object of an aggregate `this` counts as `this`
            if c[0].get("k") == "CXXThisExpr" and "this" in self.slot_cls \
                    and tclass(e.get("t", "")) in self.m.hier:
                return "this"
            return None
        if k in _CASTS and c:
            return self.operand_of(c[0])
        return None

    # ----------------------------------------------------------------- provenance
    def ptr_owners(self, e, depth=0):
        if e is None or depth > 40:
            return set()
        k = e.get("k")
        c = e.get("c") or []
        if k == "DeclRefExpr":
            return set(self.ptr.get(e["ref"].get("decl"), ()))
        if k == "MemberExpr" and e.get("mk") == "field" and c:
            if is_ptr(e.get("t", "")):
                o = self.operand_of(c[0])
                return {o} if o else set()
            return set()
        if k in ("CXXMemberCallExpr", "CXXOperatorCallExpr"):
            obj, _ = call_parts(e)
            if is_ptr(e.get("t", "")):
                o = self.operand_of(obj)
                return {o} if o else set()
            return set()
        if k == "ArraySubscriptExpr":
            out = set()
            for x in c:
                if is_ptr(x.get("t", "")):
                    out |= self.ptr_owners(x, depth + 1)
            return out
        if k in ("BinaryOperator", "CompoundAssignOperator", "ConditionalOperator", "UnaryOperator") \
                or k in _CASTS:
            if k == "UnaryOperator" and e.get("op") == "*":
                # value loaded through a pointer-to-pointer keeps the owner (U[k] == *(U+k))
                return self.ptr_owners(c[0], depth + 1) if c and is_ptr(e.get("t", "")) else set()
            out = set()
            kids = c[1:] if k == "ConditionalOperator" else c
            for x in kids:
                if is_ptr(x.get("t", "")) or x.get("k") in ("DeclRefExpr",) and is_ptr(x.get("t", "")):
                    out |= self.ptr_owners(x, depth + 1)
            return out
        return set()

    def dim_owners(self, e, depth=0):
        return {o for o, comp in self.dim_comps(e, depth)}

    def one_comp(self, e, slot):
        """the single shape component of `slot` that e denotes, 'x' if it mixes several"""
        cs = {comp for o, comp in self.dim_comps(e) if o == slot}
        return next(iter(cs)) if len(cs) == 1 else "x"

    def dim_comps(self, e, depth=0):
        """{(operand, component)} whose dimensions feed the integer expression e"""
        if e is None or depth > 40:
            return set()
        k = e.get("k")
        c = e.get("c") or []
        if k == "DeclRefExpr":
            return set(self.dim.get(e["ref"].get("decl"), ()))
        if k == "MemberExpr" and e.get("mk") == "field" and c:
            base = c[0]
            o = None
            if base.get("k") == "CXXThisExpr":
                o = "this" if "this" in self.slot_cls else None
            else:
                o = self.operand_of(base)
            if o and e.get("member") in self.m.dimfields(self.slot_cls[o]):
                raw = self.m.field_comp(self.slot_cls[o], e.get("member")) or "x"
                return {(o, norm_comp(self.s.kind[o], raw))}
            return set()
        if k == "CXXMemberCallExpr":
            obj, args = call_parts(e)
            o = self.operand_of(obj)
            g = strip_targs(e.get("callee") or "").rsplit("::", 1)[-1]
            if o and not args and g in self.m.getters:
                return {(o, norm_comp(self.s.kind[o], self.m.t["getter_component"].get(g, "x")))}
            return set()
        if k in ("BinaryOperator", "UnaryOperator", "ConditionalOperator") or k in _CASTS:
            if k == "BinaryOperator" and e.get("op") in ("=", ",") and len(c) == 2:
                return self.dim_comps(c[1], depth + 1)      # value of an assignment / comma expression
            if k == "BinaryOperator" and e.get("op") in ("==", "!=", "<", ">", "<=", ">=", "&&", "||"):
                return set()
            out = set()
            kids = c[1:] if k == "ConditionalOperator" else c
            for x in kids:
                out |= self.dim_comps(x, depth + 1)
            return out
        return set()

    def _flow(self):
        """flow-insensitive provenance of pointer / integer / reference locals (fixpoint)"""
        fn = self.fn
        defs = []   # (decl id, type, value expr)
        for n in fn.walk():
            k = n.get("k")
            if k == "DeclStmt":
                for d in n.get("decls", []):
                    if d.get("init") is not None and "decl" in d:
                        defs.append((d["decl"], d.get("t", ""), d["init"], True))
            elif k in ("BinaryOperator", "CompoundAssignOperator") and n.get("op") in ("=", "+=", "-="):
                lhs, rhs = n["c"]
                if lhs.get("k") == "DeclRefExpr" and lhs["ref"].get("dk") in ("local", "parm"):
                    defs.append((lhs["ref"]["decl"], lhs.get("t", ""), rhs, False))
        for d, t, v, is_init in defs:
            if is_init and _cv(t).rstrip().endswith("&") and tclass(t) in self.m.hier:
                o = self.operand_of(v)
                if o:
                    self.alias[d] = o
        for _ in range(12):
            changed = False
            for d, t, v, is_init in defs:
                if is_ptr(t):
                    new = self.ptr_owners(v) if is_ptr(v.get("t", "")) else set()
                    if not new <= self.ptr.get(d, set()):
                        self.ptr.setdefault(d, set()).update(new)
                        changed = True
                elif is_int(t):
                    new = self.dim_comps(v)
                    if not new <= self.dim.get(d, set()):
                        self.dim.setdefault(d, set()).update(new)
                        changed = True
            if not changed:
                break

    # ----------------------------------------------------------------- touches
    def _touch(self, slot, node):
        self.s.touched[slot].append(node)

    def _callee(self, n):
        return self.m.fx.functions.get(n.get("calleeKey"))

    def _slot_map(self, n, callee, obj, args):
        """caller operand -> set of callee slots it is passed as"""
        mp = {}
        o = self.operand_of(obj) if obj is not None else None
        if o:
            mp.setdefault(o, set()).add("this")
        for i, a in enumerate(args):
            if i >= len(callee.params):
                break
            if tclass(callee.params[i]["t"]) not in self.m.hier:
                continue
            x = self.operand_of(a)
            if x:
                mp.setdefault(x, set()).add("p%d" % i)
        return mp

    def _scan_call(self, n, obj, args, ties):
        callee = self._callee(n)
        name = strip_targs(n.get("callee") or "").rsplit("::", 1)[-1]
        if callee is not None and callee.body is not None:
            cs = self.m.summary(callee)
            if cs is not None:
                mp = self._slot_map(n, callee, obj, args)
                for x, slots in mp.items():
                    if any(cs.touched.get(sl) for sl in slots):
                        self._touch(x, n)
                xs = sorted(mp)
                for i, x in enumerate(xs):
                    for y in xs[i + 1:]:
                        prs = set()
                        for a in mp[x]:
                            for b in mp[y]:
                                if a != b and cs.connected(a, b):
                                    for ca, cb in cs.pairs(a, b):
                                        prs.add((translate(ca, cs.kind[a], self.s.kind[x]),
                                                 translate(cb, cs.kind[b], self.s.kind[y])))
                        if prs:
                            ties.append((x, y, n, "delegation to %s" % F.short(callee.rec["qn"]), prs))
        else:
            o = self.operand_of(obj) if obj is not None else None
            if o and name in self.m.accessors and not is_ptr(n.get("t", "")):
                self._touch(o, n)
        # a pointer into an operand handed to any function is an access of that operand
        for a in args:
            if is_ptr(a.get("t", "")):
                for o in self.ptr_owners(a):
                    self._touch(o, n)

    # ----------------------------------------------------------------- establishing actions
    def _arg_owners(self, args):
        """{operand: {single components that feed one of the arguments}}"""
        out = {}
        for a in args:
            for o in self.dim_owners(a):
                out.setdefault(o, set()).add(self.one_comp(a, o))
        return out

    def _establish(self):
        """[(resized operand, {operands whose dimensions feed it}, site node or None)]"""
        acts = []
        fn = self.fn
        for n in fn.walk():
            k = n.get("k")
            if k == "CXXMemberCallExpr":
                obj, args = call_parts(n)
                name = strip_targs(n.get("callee") or "").rsplit("::", 1)[-1]
                if name in self.m.resizers:
                    o = self.operand_of(obj)
                    if o:
                        own = self._arg_owners(args)
                        own.pop(o, None)
                        if own:
                            acts.append((o, own, n))
            elif k == "BinaryOperator" and n.get("op") == "=":
                lhs, rhs = n["c"]
                if lhs.get("k") == "MemberExpr" and lhs.get("mk") == "field" and is_int(lhs.get("t", "")):
                    o = self.dim_owners(lhs)
                    if len(o) == 1:
                        x = next(iter(o))
                        # chained  a = b = expr : the value is the right-most operand
                        r = rhs
                        while r.get("k") == "BinaryOperator" and r.get("op") == "=":
                            r = r["c"][1]
                        own = self._arg_owners([r])
                        own.pop(x, None)
                        if own:
                            acts.append((x, own, n))
        if "this" in self.slot_cls:
            for init in fn.rec.get("inits", []) or []:
                e = init.get("init")
                if e is None:
                    continue
                if init.get("base") and F.is_call(e):
                    own = self._arg_owners([a for a in call_parts(e)[1] if is_int(a.get("t", ""))])
                    own.pop("this", None)
                    if own:
                        acts.append(("this", own, None))
                elif init.get("field") in self.m.dimfields(self.slot_cls["this"]):
                    own = self._arg_owners([e])
                    own.pop("this", None)
                    if own:
                        acts.append(("this", own, None))
        return acts

    # ----------------------------------------------------------------- checks
    def _branch(self, node):
        """(block reached when node is true, block reached when false); None when node does not
        decide a two-way branch.  A pruned / missing edge is None."""
        cfg = self.fn.cfg
        pos = cfg.pos.get(node["id"])
        if pos is None:
            return None
        blk = cfg.blocks[pos[0]]
        raw = blk.get("succ", [])
        if len(raw) != 2 or blk.get("termK") not in _BRANCH_TERMS:
            return None
        els = [e for e in blk.get("el", []) if isinstance(e, int)]
        if not els:
            return None
        cur = self.fn.nodes.get(els[-1])
        pol = True
        while cur is not None and cur["id"] != node["id"]:
            if cur.get("k") == "UnaryOperator" and cur.get("op") == "!":
                pol = not pol
                cur = (cur.get("c") or [None])[0]
            else:
                return None
        if cur is None:
            return None
        t, f = [x if isinstance(x, int) and x >= 0 else None for x in raw]
        return (t, f) if pol else (f, t)

    def _badrank_blocks(self):
        return self.m.badrank_blocks(self.fn)

    def _checks(self, acts, ties):
        cfg = self.fn.cfg
        throws = self._badrank_blocks()
        for n in self.fn.walk():
            if n.get("k") != "BinaryOperator" or n.get("op") not in ("!=", "=="):
                continue
            a, b = n["c"]
            oa, ob = self.dim_owners(a), self.dim_owners(b)
            if len(oa) != 1 or len(ob) != 1 or oa == ob:
                continue
            x, y = next(iter(oa)), next(iter(ob))
            br = self._branch(n)
            if br is None:
                continue
            mismatch = br[0] if n["op"] == "!=" else br[1]
            if mismatch is None:
                continue
            good = set(throws)
            how = "BadRank"
            for (o, own, site) in acts:
                if site is not None and ((o == x and y in own) or (o == y and x in own)):
                    p = cfg.block_of(site)
                    if p:
                        good.add(p[0])
            if not good:
                continue
            if cfg.paths_avoiding(mismatch, good, {cfg.exit}):
                continue
            if not (good & throws) or not self._all_through(mismatch, throws):
                how = "resize"
            else:
                self.s.checks += 1
            ties.append((x, y, n, "comparison, mismatch -> %s" % how, {(self.one_comp(a, x), self.one_comp(b, y))}))

    def _all_through(self, start, blocks):
        return not self.fn.cfg.paths_avoiding(start, blocks, {self.fn.cfg.exit})

    # ----------------------------------------------------------------- driver
    def run(self):
        fn, s = self.fn, self.s
        self._operands()
        if not s.slots:
            s.finish()
            return s
        self._flow()
        ties = []
        for n in fn.walk():
            k = n.get("k")
            c = n.get("c") or []
            if k == "UnaryOperator" and n.get("op") == "*" and c:
                if c[0].get("k") != "CXXThisExpr":
                    for o in self.ptr_owners(c[0]):
                        self._touch(o, n)
            elif k == "ArraySubscriptExpr":
                for x in c:
                    if is_ptr(x.get("t", "")):
                        for o in self.ptr_owners(x):
                            self._touch(o, n)
            elif k == "MemberExpr" and n.get("arrow") and c and c[0].get("k") != "CXXThisExpr":
                for o in self.ptr_owners(c[0]):
                    self._touch(o, n)
            elif F.is_call(n):
                obj, args = call_parts(n)
                self._scan_call(n, obj, args, ties)
        # base-class constructor initialisers are calls on `this`
        if "this" in self.slot_cls:
            this_expr = {"k": "CXXThisExpr", "id": -1}
            for init in fn.rec.get("inits", []) or []:
                e = init.get("init")
                if e is not None and init.get("base") and F.is_call(e):
                    # _scan_call already saw it as a constructor call without receiver; redo with receiver
                    self._scan_call(e, this_expr, call_parts(e)[1], ties)
        acts = self._establish()
        for (o, own, site) in acts:
            for y, comps in own.items():
                ties.append((o, y, site, "resize / dimension assignment", {("*", c) for c in comps}))
        self._checks(acts, ties)
        cfg = fn.cfg

        def covers(site, t):
            return site is None or site["id"] == t["id"] or cfg.dominates(site, t)
        for (x, y, site, kind, prs) in ties:
            if x not in s.touched or y not in s.touched or x == y:
                continue
            valid = all(covers(site, t) for t in s.touched[x]) or all(covers(site, t) for t in s.touched[y])
            s.ties.append((x, y, site, kind, valid, frozenset(prs)))
        s.finish()
        return s


def rule_dim(ctx):
    fx = ctx.facts
    table = engine.load_table("dim.json")
    model = Model(fx, table)
    seen = {}
    nchecks = 0
    for fn in sorted(fx.functions.values(), key=lambda f: (f.file, f.line, f.key)):
        if not fn.file.startswith(model.scope) or fn.body is None:
            continue
        s = model.summary(fn)
        if s is None:
            continue
        ctx.saw(fn)
        touched = [sl for sl in s.slots if s.touched[sl]]
        if len(touched) < 2:
            continue
        nchecks += s.checks
        comps = {}
        for sl in touched:
            comps.setdefault(s.comp[sl], []).append(s.names[sl])
        ok = len(comps) == 1
        key = fn.sig
        detail = {
            "operands": [s.names[sl] for sl in s.slots],
            "touched": [s.names[sl] for sl in touched],
            "shapes": {s.names[sl]: "{%s}" % ",".join(sorted(SHAPE[s.kind[sl][0]])) for sl in touched},
            "ties": sorted({"%s~%s: %s %s%s" % (s.names[x], s.names[y], kind,
                                                sorted("%s-%s" % p for p in prs),
                                                "" if valid else " (does not dominate the accesses)")
                            for x, y, site, kind, valid, prs in s.ties}),
        }
        msg = ""
        if not ok:
            groups = sorted(sorted(v) for v in comps.values())
            msg = ("elements of %s are accessed but no dimension comparison throwing Exception::BadRank "
                   "(nor a resize, nor a checking callee) ties %s before the first access"
                   % (", ".join(detail["touched"]), " | ".join("{" + ", ".join(g) + "}" for g in groups)))
            why = sorted("%s~%s: %s" % (s.names[x], s.names[y], w) for (x, y), w in s.untied.items())
            if why:
                msg += " [" + "; ".join(why) + "]"
        prev = seen.get(key)
        if prev is not None:
            if prev[0] == ok:
                continue
            if prev[0] and not ok:
                seen[key] = (ok, fn, msg, detail)
            continue
        seen[key] = (ok, fn, msg, detail)
    for key, (ok, fn, msg, detail) in sorted(seen.items()):
        ctx.report(RULE, key, ok, fn.where(), fn.short, msg, detail)
    ctx.floor(RULE, table["floor_functions_with_obligation"], len(seen),
              "lib/matvec functions touching two or more operands")
    ctx.floor(RULE, table["floor_badrank_checks"], nchecks, "recognised BadRank dimension comparisons")
    return model
