"""R-GUARD: an "update only if different" guard tests everything the update sets.

The dense containers skip the work of `reset(r, c)` when the object already has the requested shape:

    if (r != row_ || c != col_) { row_ = r; col_ = c; resize(r*c); }           (MatBase, TransMat, BandMat)

The skipped path is only right if the guard being false implies that every field the block would set from a
parameter already equals that parameter.  A guard that compares something weaker (the storage size instead of
dimension and band width) leaves an object with the same number of elements in its *old* shape: every later
element access then addresses the wrong entry (C15 "operations equal their mathematical definition").

Decided statically for every `if` without `else` whose condition is a disjunction of `!=` comparisons, each between
state of `this` and an expression over the parameters the branch stores (so `p != nullptr`, `n != 0` are not
instances), and whose branch assigns a field of `this` directly from a function parameter: for every such pair (field f, parameter p)
one disjunct must compare p with f or with a const accessor that returns f (fields set in one chain
`a = b = p` are equal by construction: testing one of them suffices).  Nothing is executed.
Not decided: guards of other shapes (they are not instances), values computed from several parameters.
"""
import engine
import facts as F
from facts import strip_targs

RULE = "R-GUARD"


def _unwrap(n):
    while n is not None and n.get("k") in ("ParenExpr", "ImplicitCastExpr", "ExprWithCleanups") and n.get("c"):
        n = n["c"][0]
    return n


def _disjuncts(n):
    n = _unwrap(n)
    if n is not None and n.get("k") == "BinaryOperator" and n.get("op") == "||":
        return _disjuncts(n["c"][0]) + _disjuncts(n["c"][1])
    return [n]


def _this_field(n):
    n = _unwrap(n)
    if n is not None and n.get("k") == "MemberExpr" and F.is_this_field(n):
        return n.get("member")
    return None


def _param(n, fn):
    n = _unwrap(n)
    if n is not None and n.get("k") == "DeclRefExpr" and n["ref"].get("dk") == "parm":
        return n["ref"].get("decl")
    return None


def _getter_field(fx, n):
    """Field returned by a const accessor call on this (`dim()` -> row_), or None."""
    n = _unwrap(n)
    if n is None or n.get("k") != "CXXMemberCallExpr" or F.call_args(n):
        return None
    obj = _unwrap(F.call_object(n))
    if obj is not None and obj.get("k") != "CXXThisExpr":
        return None
    g = fx.functions.get(n.get("calleeKey"))
    if g is None or g.body is None:
        return None
    rets = [m for m in g.walk() if m.get("k") == "ReturnStmt"]
    if len(rets) != 1:
        return None
    v = rets[0].get("value") or (rets[0].get("c") or [None])[0]
    return _this_field(v)


def rule_guard(ctx):
    fx = ctx.facts
    table = engine.load_table("guard.json")
    scope = tuple(table.get("scope_prefixes", ["lib/"]))
    n_inst = 0
    seen = {}
    for fn in sorted(fx.functions.values(), key=lambda f: (f.file, f.line, f.key)):
        if fn.body is None or not fn.cls or not fn.file.startswith(scope) or not fn.params:
            continue
        for n in fn.walk():
            if n.get("k") != "IfStmt" or n.get("else") is not None or n.get("cond") is None or n.get("then") is None:
                continue
            ds = _disjuncts(n["cond"])
            if not all(d is not None and d.get("k") == "BinaryOperator" and d.get("op") == "!=" for d in ds):
                continue
            # (field, param) pairs set in the branch, following chains a = b = p
            pairs = []
            for m in F.walk(n["then"]):
                if m.get("k") == "BinaryOperator" and m.get("op") == "=" and len(m.get("c") or []) == 2:
                    f = _this_field(m["c"][0])
                    rhs = _unwrap(m["c"][1])
                    group = {f}
                    while rhs is not None and rhs.get("k") == "BinaryOperator" and rhs.get("op") == "=":
                        group.add(_this_field(rhs["c"][0]))       # a = b = p: set together, equal by construction
                        rhs = _unwrap(rhs["c"][1])
                    p = _param(rhs, fn)
                    par = fn.parent(m)
                    inner = par is not None and par.get("k") == "BinaryOperator" and par.get("op") == "=" and \
                        _unwrap(par["c"][1]) is m
                    if f and p is not None and not inner:
                        pairs.append((f, p, m, group - {None}))
            if not pairs:
                continue
            # an update-if-different guard: every disjunct compares state of `this` with an expression over
            # the parameters the branch stores (`p != nullptr`, `n != 0` are other kinds of guard: no instance)
            stored = {p for _, p, _, _ in pairs}

            def _mentions(x):
                has_state = has_par = False
                for m in F.walk(x):
                    if m.get("k") == "CXXThisExpr":
                        has_state = True
                    elif m.get("k") == "DeclRefExpr" and m["ref"].get("dk") == "parm" and m["ref"].get("decl") in stored:
                        has_par = True
                return has_state, has_par
            shape_ok = True
            for d in ds:
                (s0, p0), (s1, p1) = _mentions(d["c"][0]), _mentions(d["c"][1])
                if not ((s0 and not p0 and p1 and not s1) or (s1 and not p1 and p0 and not s0)):
                    shape_ok = False
            if not shape_ok:
                continue
            tested = set()
            for d in ds:
                a, b = d["c"][0], d["c"][1]
                for x, y in ((a, b), (b, a)):
                    p = _param(x, fn)
                    if p is None:
                        continue
                    f = _this_field(y) or _getter_field(fx, y)
                    if f:
                        tested.add((f, p))
            ctx.saw(fn)
            sig = F.short(fn.sig) if getattr(fn, "sig", None) else fn.short
            pname = {q["decl"]: q["name"] for q in fn.params}
            for f, p, m, group in pairs:
                key = "%s:%s<-%s" % (sig, f, pname.get(p, "?"))
                seen[key] = seen.get(key, 0) + 1
                if seen[key] > 1:
                    continue
                ok = any((g, p) in tested for g in group)
                n_inst += 1
                ctx.report(RULE, key, ok, fn.where(n), fn.short,
                           msg="" if ok else "the branch sets `%s` from parameter `%s`, but the guard that skips it does not "
                           "compare the two: when the guard is false the object keeps its old `%s`" % (f, pname.get(p, "?"), f),
                           detail={"guard": F.expr_text(n["cond"]), "field": f})
    fl = table.get("floors", {})
    ctx.floor(RULE, fl.get("instances", 1), n_inst, "fields set from a parameter under an update-if-different guard")
    return {"instances": n_inst}
