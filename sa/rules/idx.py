"""R-IDX: index-space typing (qualifier inference).

gama moves integer indices between numberings that are all `int` to the compiler:
  U  original unknown number          P  permuted position (after invp)
  O  observation row                  S  singular-value index
  K  null-space / G column            K0 0-based list position
  R  row of the ICGS block matrix (accepts O, or U shifted by the number of rows: "UM")
A signature table (tables/index_spaces.json) gives the space of API slots (method
parameters / results, subscripts and element values of container fields).  Every integer
local / parameter of the analysed functions gets a type variable; assignments,
initialisations, ==/!= comparisons, swaps, calls (also to private helpers: their parameter
variables are shared) and subscripts generate equalities.  A variable or slot that
receives two different spaces is a violation, reported with both uses.

Idioms recognised (kept silent): identity initialisation `c(i) = i`; arithmetic yields an
untyped value; `v += rows` re-types v from U to UM for the uses it dominates; pointers
carry the space of their pointee (`*n++`, `n[k]`).
"""
import engine
import facts as F
from facts import AnalysisBroken, strip_targs, short

RULE = "R-IDX"


class Var:
    __slots__ = ("name", "parent", "binds", "rank")

    def __init__(self, name):
        self.name = name
        self.parent = self
        self.binds = []      # (space, site text)
        self.rank = 0

    def find(self):
        v = self
        while v.parent is not v:
            v.parent = v.parent.parent
            v = v.parent
        return v


def union(a, b):
    a, b = a.find(), b.find()
    if a is b:
        return a
    if a.rank < b.rank:
        a, b = b, a
    b.parent = a
    a.binds.extend(b.binds)
    b.binds = []
    if a.rank == b.rank:
        a.rank += 1
    return a


INT_TYPES = ("int", "long", "unsigned int", "unsigned long", "const int", "const long",
             "const unsigned long", "const unsigned int", "short", "size_t")


def _is_int_like(t):
    t = (t or "").replace("const ", "").replace("volatile ", "").strip()
    base = t.rstrip("*& ").strip()
    return base in ("int", "long", "unsigned int", "unsigned long", "short", "unsigned short", "long long",
                    "unsigned long long")


class Typer:
    def __init__(self, ctx, table):
        self.ctx = ctx
        self.fx = ctx.facts
        self.table = table
        self.methods = {self._q(k): v for k, v in table["methods"].items()}
        self.fields = {self._q(k): v for k, v in table["fields"].items()}
        self.compat = {k: set(v) for k, v in table.get("compatible", {}).items()}
        self.vars = {}        # (fn key, decl id, version) -> Var
        self.conflicts = []   # direct slot mismatches
        self.slot_count = 0
        self.cache_sites = {}  # cache field qn -> [(fn, key type desc, site)]
        self.fill_kinds = {}   # cache field qn -> {fn sig: set(routines)}
        self.fn_nodes = {}

    @staticmethod
    def _q(name):
        return name if name.startswith("GNU_gama::") or name.startswith("std::") else "GNU_gama::" + name

    # -- table lookups ---------------------------------------------------------
    def method_spec(self, callee_qn, callee_class):
        spec = self.methods.get(callee_qn)
        if spec is not None:
            return spec
        # overriders inherit the signature of the base method
        name = callee_qn.rsplit("::", 1)[-1]
        if callee_class:
            for b in self.fx.bases_of(callee_class):
                spec = self.methods.get(b + "::" + name)
                if spec is not None and spec.get("inherit", True):
                    return spec
        return None

    def field_spec(self, owner, member):
        return self.fields.get(owner + "::" + member)

    # -- variables -------------------------------------------------------------
    def var(self, fn, decl, name, version=0):
        k = (fn.key, decl, version)
        v = self.vars.get(k)
        if v is None:
            v = self.vars[k] = Var("%s:%s%s" % (fn.sig, name, "" if not version else "'%d" % version))
        return v

    def bind(self, var, space, site):
        if space is None:
            return
        var.find().binds.append((space, site))

    # -- per function ----------------------------------------------------------
    def analyse(self, fn):
        self.ctx.saw(fn)
        env = FnEnv(self, fn)
        env.run()


def _site(fn, node, what):
    return "%s %s" % (fn.where(node), what)


class FnEnv:
    def __init__(self, T, fn):
        self.T = T
        self.fn = fn
        self.decl_name = {}
        self.decl_type = {}
        self.cont = {}       # decl -> container type for container-typed locals/params
        self.shifts = {}     # decl -> [shift nodes]
        for p in fn.params:
            self.decl_name[p["decl"]] = p["name"]
            self.decl_type[p["decl"]] = p["t"]
        for n in fn.walk():
            if n.get("k") == "DeclStmt":
                for d in n.get("decls", []):
                    if "decl" in d:
                        self.decl_name[d["decl"]] = d["name"]
                        self.decl_type[d["decl"]] = d.get("t", "")

    # type representation: ('s', space) | ('v', Var) | ('c', [index spaces], value type or None) | None
    def param_specs(self):
        fn = self.fn
        spec = self.T.method_spec(fn.qn, strip_targs(fn.cls or ""))
        if not spec:
            return
        args = spec.get("args", [])
        for p, a in zip(fn.params, args):
            if a is None:
                continue
            if isinstance(a, str):
                if _is_int_like(p["t"]):
                    self.T.bind(self.T.var(fn, p["decl"], p["name"]), a,
                                "signature of %s: parameter '%s' is %s" % (short(fn.qn), p["name"], a))
            elif isinstance(a, dict):
                if "elems" in a and _is_int_like(p["t"]):
                    self.T.bind(self.T.var(fn, p["decl"], p["name"]), a["elems"],
                                "signature of %s: elements of '%s' are %s" % (short(fn.qn), p["name"], a["elems"]))
                elif "index" in a:
                    self.cont[p["decl"]] = ("c", list(a["index"]), self._mk(a.get("value")))

    def _mk(self, spec):
        if spec is None:
            return None
        if isinstance(spec, str):
            return ("s", spec)
        if isinstance(spec, dict) and "index" in spec:
            return ("c", list(spec["index"]), self._mk(spec.get("value")))
        return None

    def find_shifts(self):
        """`v += M` with M initialised from a rows() call: v goes from U to UM afterwards."""
        fn = self.fn
        rows_locals = set()
        for n in fn.walk():
            if n.get("k") == "DeclStmt":
                for d in n.get("decls", []):
                    init = d.get("init")
                    if init is not None and any(F.is_call(x) and (x.get("callee") or "").endswith("::rows")
                                                for x in F.walk(init)):
                        rows_locals.add(d["decl"])
        for n in fn.walk():
            if n.get("k") == "CompoundAssignOperator" and n.get("op") == "+=":
                l, r = n["c"]
                if l.get("k") == "DeclRefExpr" and r.get("k") == "DeclRefExpr" \
                        and r["ref"].get("decl") in rows_locals and "decl" in l["ref"]:
                    self.shifts.setdefault(l["ref"]["decl"], []).append(n)

    def version_of(self, decl, node):
        sh = self.shifts.get(decl)
        if not sh:
            return 0
        cfg = self.fn.cfg
        v = 0
        for s in sh:
            if s["id"] == node["id"] or any(x["id"] == node["id"] for x in F.walk(s)):
                continue   # the operand of the shift itself is the old version
            if cfg.dominates(s, node):
                v += 1
            else:
                pa, pb = cfg.block_of(s), cfg.block_of(node)
                if pa and pb and (pa[0] in cfg.reachable_blocks_from(pb[0]) or pb[0] in cfg.reachable_blocks_from(pa[0])) \
                        and not cfg.dominates(node, s):
                    return None   # use neither clearly before nor clearly after the shift: do not type
        return v

    # -- expression typing -------------------------------------------------------
    def ty(self, n):
        if n is None:
            return None
        k = n.get("k")
        c = n.get("c") or []
        fn = self.fn
        if k == "DeclRefExpr":
            r = n["ref"]
            d = r.get("decl")
            if d is None:
                return None
            if d in self.cont:
                return self.cont[d]
            if _is_int_like(self.decl_type.get(d, n.get("t", ""))):
                ver = self.version_of(d, n)
                if ver is None:
                    return None
                v = self.T.var(fn, d, r.get("name", "?"), ver)
                if ver and not v.find().binds and d in self.shifts:
                    base = self.T.var(fn, d, r.get("name", "?"), ver - 1)
                    # bind lazily: version k is shift(version k-1); resolved in finish()
                    self.T.shift_links.append((base, v, _site(fn, n, "after '%s += rows'" % r.get("name"))))
                return ("v", v)
            return None
        if k == "MemberExpr" and n.get("mk") == "field":
            spec = self.T.field_spec(strip_targs(n.get("owner", "")), n.get("member"))
            if spec is None:
                return None
            if isinstance(spec, str):
                return ("s", spec)
            return self._mk(spec) if "index" in spec else (("s", spec["space"]) if "space" in spec else None)
        if k in ("CXXStaticCastExpr", "CStyleCastExpr", "CXXFunctionalCastExpr", "ImplicitCastExpr",
                 "CXXConstCastExpr"):
            return self.ty(c[0]) if c else None
        if k == "UnaryOperator":
            op = n.get("op")
            if op in ("*", "++", "--", "&") and c:
                return self.ty(c[0])
            return None
        if k == "ArraySubscriptExpr" and len(c) == 2:
            return self.subscript(n, c[0], [c[1]])
        if k == "CXXOperatorCallExpr":
            op = n.get("op")
            args = c[1:]
            if op in ("()", "[]") and args:
                return self.subscript(n, args[0], args[1:])
            if op == "*" and len(args) == 1:
                return self.ty(args[0])
            if op in ("++", "--") and args:
                return self.ty(args[0])
            return None
        if k == "BinaryOperator" and n.get("op") == ",":
            return self.ty(c[1])
        if k in ("CXXMemberCallExpr", "CallExpr"):
            return self.call_result(n)
        return None

    def subscript(self, node, base, idxs):
        bt = self.ty(base)
        if bt is None:
            for i in idxs:
                self.ty(i)
            return None
        if bt[0] in ("v", "s"):
            # pointer to indices: element has the pointer's space
            return bt
        if bt[0] == "c":
            spaces = bt[1]
            for pos, i in enumerate(idxs):
                if pos < len(spaces) and spaces[pos] is not None:
                    self.slot(i, spaces[pos], node,
                              "subscript %d of %s" % (pos + 1, F.expr_text(base)))
            rest = spaces[len(idxs):]
            if rest:
                return ("c", rest, bt[2])
            return bt[2]
        return None

    def call_result(self, n):
        callee = strip_targs(n.get("callee") or "")
        if not callee:
            return None
        if callee in ("std::max", "std::min"):
            args = F.call_args(n)
            if len(args) == 2:
                self.equate(args[0], args[1], n, "%s(%s, %s)" % (callee, F.expr_text(args[0]), F.expr_text(args[1])))
                return self.ty(args[0]) or self.ty(args[1])
            return None
        spec = self.T.method_spec(callee, strip_targs(n.get("calleeClass") or ""))
        if spec is None:
            return None
        if "ret" in spec and spec["ret"]:
            return ("s", spec["ret"])
        if "ret_elems" in spec and spec["ret_elems"]:
            return ("s", spec["ret_elems"])
        return None

    # -- constraints ---------------------------------------------------------------
    def slot(self, expr, space, node, what):
        """expr is used in a slot of `space`."""
        t = self.ty(expr)
        self.T.slot_count += 1
        site = _site(self.fn, node, "%s expects %s, given '%s'" % (what, space, F.expr_text(expr)))
        if t is None:
            return
        if t[0] == "v":
            self.T.bind(t[1], space, site)
        elif t[0] == "s":
            if not self.T.same(t[1], space):
                self.T.conflicts.append({
                    "fn": self.fn, "node": node,
                    "key": "%s:%s<-%s" % (self.fn.sig, what.replace(" ", "_"), F.expr_text(expr)),
                    "msg": "%s expects an index in space %s but '%s' is in space %s"
                           % (what, space, F.expr_text(expr), t[1])})

    def equate(self, a, b, node, what):
        ta, tb = self.ty(a), self.ty(b)
        if ta is None or tb is None:
            return
        site = _site(self.fn, node, what)
        if ta[0] == "v" and tb[0] == "v":
            union(ta[1], tb[1])
        elif ta[0] == "v" and tb[0] == "s":
            self.T.bind(ta[1], tb[1], site)
        elif ta[0] == "s" and tb[0] == "v":
            self.T.bind(tb[1], ta[1], site)
        elif ta[0] == "s" and tb[0] == "s":
            if not self.T.same(ta[1], tb[1]):
                self.T.conflicts.append({
                    "fn": self.fn, "node": node,
                    "key": "%s:%s" % (self.fn.sig, F.expr_text(node)),
                    "msg": "%s mixes index spaces %s and %s" % (what, ta[1], tb[1])})

    def run(self):
        fn = self.fn
        T = self.T
        self.find_shifts()
        self.param_specs()
        for n in fn.walk():
            k = n.get("k")
            c = n.get("c") or []
            if k == "DeclStmt":
                for d in n.get("decls", []):
                    init = d.get("init")
                    if init is None or "decl" not in d:
                        continue
                    it = self.ty(init)
                    if it is None:
                        continue
                    if it[0] == "c":
                        self.cont[d["decl"]] = it
                    elif _is_int_like(d.get("t", "")):
                        v = T.var(fn, d["decl"], d["name"])
                        site = _site(fn, n, "initialisation of '%s' from '%s'" % (d["name"], F.expr_text(init)))
                        if it[0] == "v":
                            union(v, it[1])
                        else:
                            T.bind(v, it[1], site)
            elif k == "BinaryOperator" and n.get("op") == "=" and len(c) == 2:
                if self._identity_init(c[0], c[1]):
                    self.ty(c[0])
                    continue
                self.equate(c[0], c[1], n, "assignment '%s'" % F.expr_text(n))
            elif k == "BinaryOperator" and n.get("op") in ("==", "!=") and len(c) == 2:
                self.equate(c[0], c[1], n, "comparison '%s'" % F.expr_text(n))
            elif k == "BinaryOperator" and n.get("op") in ("<", ">", "<=", ">=") and len(c) == 2:
                # ordering comparisons constrain only against a value of fixed space (a typed field or
                # result); two variables compared by < may be an index and a count
                ta, tb = self.ty(c[0]), self.ty(c[1])
                if ta is not None and tb is not None and "s" in (ta[0], tb[0]):
                    self.equate(c[0], c[1], n, "comparison '%s'" % F.expr_text(n))
            elif k in ("CXXMemberCallExpr", "CallExpr", "CXXOperatorCallExpr", "CXXConstructExpr"):
                self.call_constraints(n)
            elif k == "ArraySubscriptExpr":
                self.ty(n)
            elif k == "ReturnStmt" and c:
                pass

    def _identity_init(self, lhs, rhs):
        """`cont(i) = i` / `cont[i] = i`: identity initialisation, no constraint from the value."""
        if rhs.get("k") != "DeclRefExpr" or "decl" not in rhs["ref"]:
            return False
        d = rhs["ref"]["decl"]
        idx = None
        if lhs.get("k") == "ArraySubscriptExpr":
            idx = lhs["c"][1]
        elif lhs.get("k") == "CXXOperatorCallExpr" and lhs.get("op") in ("()", "[]") and len(lhs.get("c", [])) == 3:
            idx = lhs["c"][2]
        return idx is not None and idx.get("k") == "DeclRefExpr" and idx["ref"].get("decl") == d

    def call_constraints(self, n):
        fn = self.fn
        T = self.T
        k = n.get("k")
        if k == "CXXOperatorCallExpr":
            if n.get("op") in ("()", "[]", "*", "++", "--"):
                self.ty(n)
                return
            if n.get("op") == "=" and len(n.get("c", [])) == 3:
                return
        callee = strip_targs(n.get("callee") or "")
        if not callee:
            return
        args = F.call_args(n)
        if callee == "std::swap" and len(args) == 2:
            self.equate(args[0], args[1], n, "swap")
            return
        spec = T.method_spec(callee, strip_targs(n.get("calleeClass") or ""))
        if spec is not None:
            if spec.get("cache_key"):
                obj = F.call_object(n)
                t = self.ty(args[0]) if args else None
                T.cache_sites.setdefault(self._field_name(obj), []).append((fn, t, n, F.expr_text(args[0]) if args else ""))
                return
            for pos, (a, s) in enumerate(zip(args, spec.get("args", []))):
                if s is None:
                    continue
                what = "argument %d of %s" % (pos + 1, short(callee))
                if isinstance(s, str):
                    self.slot(a, s, n, what)
                elif isinstance(s, dict) and "elems" in s:
                    self.slot(a, s["elems"], n, what + " (elements)")
                elif isinstance(s, dict) and "index" in s:
                    at = self.ty(a)
                    T.slot_count += 1
                    if at is not None and at[0] == "c":
                        for i, (x, y) in enumerate(zip(at[1], s["index"])):
                            if x is not None and y is not None and not T.same(x, y):
                                T.conflicts.append({
                                    "fn": fn, "node": n,
                                    "key": "%s:%s<-%s" % (fn.sig, what.replace(" ", "_"), F.expr_text(a)),
                                    "msg": "%s expects a vector indexed by %s but '%s' is indexed by %s"
                                           % (what, y, F.expr_text(a), x)})
            return
        # a call to a function that is itself analysed: share its parameter variables
        target = None
        for f in T.fx.fns(callee):
            if f.key == n.get("calleeKey"):
                target = f
                break
        if target is not None and target.key in T.scope_keys:
            for a, p in zip(args, target.params):
                if not _is_int_like(p["t"]):
                    continue
                at = self.ty(a)
                if at is None:
                    continue
                pv = T.var(target, p["decl"], p["name"])
                T.slot_count += 1
                if at[0] == "v":
                    union(pv, at[1])
                else:
                    T.bind(pv, at[1], _site(fn, n, "argument '%s' of %s" % (p["name"], short(callee))))

    def _field_name(self, obj):
        if obj is not None and obj.get("k") == "MemberExpr":
            return "%s::%s" % (strip_targs(obj.get("owner", "")), obj.get("member"))
        return F.expr_text(obj) if obj is not None else "?"


def run_typer(ctx, scope_classes, scope_functions, exclude=None):
    table = engine.load_table("index_spaces.json")
    fx = ctx.facts
    T = Typer(ctx, table)
    T.shift_links = []
    shift_map = table.get("shift", {"U": "UM"})

    def same(a, b):
        if a == b:
            return True
        return b in T.compat.get(a, ()) or a in T.compat.get(b, ())
    T.same = same
    fns = []
    for cname in scope_classes:
        ms = fx.methods_of(cname)
        if not ms:
            raise AnalysisBroken("R-IDX: class %s has no analysed methods" % cname)
        fns.extend(ms)
    for q in scope_functions:
        cand = fx.fns(q)
        if not cand:
            raise AnalysisBroken("R-IDX: anchor function %s not found" % q)
        fns.extend(cand)
    seen = set()
    uniq = []
    excl = {T._q(k) for k in (exclude or {})}
    for f in fns:
        if f.qn in excl:
            continue
        if f.key not in seen and f.body is not None:
            seen.add(f.key)
            uniq.append(f)
    T.scope_keys = seen
    for f in uniq:
        T.analyse(f)
    # resolve shift links: version k = shift(version k-1)
    for base, v, site in T.shift_links:
        spaces = {s for s, _ in base.find().binds}
        for s in spaces:
            if s in shift_map:
                T.bind(v, shift_map[s], site + " (%s -> %s)" % (s, shift_map[s]))
    return T, uniq


def report(ctx, T, fns, label, match=None):
    """One instance per typed variable class and per direct slot conflict (restricted to the
    functions selected by `match`: substrings of the function signature)."""
    def sel(names):
        return match is None or any(m in n for n in names for m in match)
    roots = {}
    for key, v in T.vars.items():
        r = v.find()
        roots.setdefault(id(r), (r, []))[1].append(v)
    n_typed = 0
    for r, members in roots.values():
        if not r.binds:
            continue
        if not sel([m.name for m in members]):
            continue
        n_typed += 1
        name = sorted(m.name for m in members)[0]
        spaces = {}
        for s, site in r.binds:
            spaces.setdefault(s, site)
        # collapse compatible spaces
        distinct = []
        for s in spaces:
            if not any(T.same(s, d) for d in distinct):
                distinct.append(s)
        key = "%s:var:%s" % (label, name)
        if len(distinct) > 1:
            ctx.bad(RULE, key, spaces[distinct[0]].split(" ")[0], name.split(":")[0],
                    "index variable is used in %d different index spaces: %s"
                    % (len(distinct), "; ".join("%s at %s" % (s, spaces[s]) for s in distinct)),
                    {"uses": [{"space": s, "site": site} for s, site in r.binds][:12]})
        else:
            ctx.ok(RULE, key, detail={"space": distinct[0], "uses": len(r.binds)})
    seen = set()
    for c in T.conflicts:
        key = "%s:slot:%s" % (label, c["key"])
        if key in seen or not sel([c["key"]]):
            continue
        seen.add(key)
        ctx.bad(RULE, key, c["fn"].where(c["node"]), c["fn"].short, c["msg"])
    return n_typed


def check_caches(ctx, T, label, match=None):
    """A MoveToFront cache object: all get(key) sites use one key space and the buffer of a miss is
    filled by one routine (one content kind)."""
    n = 0
    if match is not None and not any("cache:" in m for m in match):
        return 0
    for field, sites in T.cache_sites.items():
        spaces = {}
        for fn, t, node, text in sites:
            sp = None
            if t is not None and t[0] == "s":
                sp = t[1]
            elif t is not None and t[0] == "v":
                bs = {s for s, _ in t[1].find().binds}
                if len(bs) == 1:
                    sp = list(bs)[0]
            spaces.setdefault(sp, []).append("%s get(%s)" % (fn.where(node), text))
        known = {s: v for s, v in spaces.items() if s is not None}
        key = "%s:cache:%s:key-space" % (label, short(field))
        n += 1
        if len(known) > 1:
            ctx.bad(RULE, key, "", "", "cache %s is looked up with keys of different index spaces: %s"
                    % (short(field), "; ".join("%s at %s" % (s, v[0]) for s, v in known.items())),
                    {"sites": {str(s): v for s, v in spaces.items()}})
        else:
            ctx.ok(RULE, key, detail={"sites": {str(s): v for s, v in spaces.items()}})
    return n



def _rule_idx(ctx, view, floor_vars, floor_slots):
    table = engine.load_table("index_spaces.json")
    sc = table["scope"]["solvers"]
    match = sc["views"][view]["match"] if view else None
    T, fns = run_typer(ctx, sc["classes"], sc["functions"], sc.get("exclude"))
    n = report(ctx, T, fns, "idx", match)
    nc = check_caches(ctx, T, "idx", match)
    ctx.floor(RULE, floor_vars, n, "typed index variables (%s)" % (view or "all"))
    ctx.floor(RULE, floor_slots, T.slot_count, "typed slots in the analysed solver code")
    return {"typed_slots": T.slot_count, "typed_variables": n, "cache_objects": nc}


def rule_idx_all(ctx):
    return _rule_idx(ctx, None, 130, 380)


def rule_idx_c20(ctx):
    return _rule_idx(ctx, "C20", 4, 380)


def rule_idx_c03(ctx):
    return _rule_idx(ctx, "C03", 25, 380)


def rule_idx_c01(ctx):
    return _rule_idx(ctx, "C01", 40, 380)


def rule_idx_c16(ctx):
    return _rule_idx(ctx, "C16", 10, 380)
