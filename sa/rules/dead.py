"""R-DEAD: no branch of an if / else-if chain over status predicates of one object is dead.

gama encodes the status of a point / parameter (unused, fixed, free, constrained) in a small
integer field and asks for it through predicates such as `fixed_xy()`, `constrained_xy()`,
`free_xy()`.  The encodings overlap on purpose (a *constrained* coordinate is also *free*:
`xy_adjusted_ | xy_constrained_`, `constr_ = 4 + free_`), so the order of the tests in a chain
    if (p.fixed_xy()) .. else if (p.constrained_xy()) .. else if (p.free_xy()) ..
matters: testing the wider predicate first makes the narrower branch unreachable and every
constrained coordinate is silently treated as free.

Decided statically: for every status class of tables/dead.json the set of reachable field values
is the closure of the constructor's initial value under the class's setters (constant folding of
`f = c`, `f &= ~c`, `f |= c` over a finite domain), every parameterless const predicate whose body
is a single `return <expression over the field and constants>` gets its truth set, predicates of
other classes that merely delegate (`return U.free();`) inherit it, and in every if / else-if chain
whose conditions are such predicates on one receiver no branch may have an empty truth set given
the branches before it.  Nothing is executed.
"""
import engine
import facts as F
from facts import AnalysisBroken, strip_targs, short, walk

RULE = "R-DEAD"


class Unknown(Exception):
    pass


def _q(name):
    return name if name.startswith("GNU_gama::") else "GNU_gama::" + name


def _eval(node, field, value, preds, depth=0):
    """Integer value of a constant expression over this-><field> (== value)."""
    if node is None or depth > 40:
        raise Unknown()
    k = node.get("k")
    c = node.get("c") or []
    if k == "IntegerLiteral":
        return int(node["v"])
    if k == "CXXBoolLiteralExpr":
        return 1 if node.get("v") else 0
    if k == "DeclRefExpr" and node["ref"].get("dk") == "enumconst":
        return int(node["ref"]["v"])
    if F.is_this_field(node, field):
        return value
    if k in ("CXXStaticCastExpr", "CStyleCastExpr", "CXXFunctionalCastExpr", "ImplicitCastExpr") and c:
        return _eval(c[0], field, value, preds, depth + 1)
    if k == "UnaryOperator" and c:
        v = _eval(c[0], field, value, preds, depth + 1)
        op = node.get("op")
        if op == "~":
            return ~v
        if op == "!":
            return 0 if v else 1
        if op == "-":
            return -v
        if op == "+":
            return v
        raise Unknown()
    if k == "BinaryOperator" and len(c) == 2:
        op = node.get("op")
        a = _eval(c[0], field, value, preds, depth + 1)
        if op == "&&":
            return 1 if (a and _eval(c[1], field, value, preds, depth + 1)) else 0
        if op == "||":
            return 1 if (a or _eval(c[1], field, value, preds, depth + 1)) else 0
        b = _eval(c[1], field, value, preds, depth + 1)
        ops = {"&": a & b, "|": a | b, "^": a ^ b, "+": a + b, "-": a - b,
               "==": int(a == b), "!=": int(a != b), "<": int(a < b), ">": int(a > b),
               "<=": int(a <= b), ">=": int(a >= b)}
        if op in ops:
            return ops[op]
        raise Unknown()
    if k == "CXXMemberCallExpr" and not F.call_args(node):
        obj = F.call_object(node)
        name = strip_targs(node.get("callee") or "").rsplit("::", 1)[-1]
        if obj is not None and obj.get("k") == "CXXThisExpr" and name in preds:
            return 1 if value in preds[name] else 0
    raise Unknown()


def _single_return(fn):
    if fn.body is None:
        return None
    stmts = fn.body.get("c") or []
    if len(stmts) == 1 and stmts[0].get("k") == "ReturnStmt" and stmts[0].get("c"):
        return stmts[0]["c"][0]
    return None


class StatusClass:
    def __init__(self, fx, cname, field):
        self.name = _q(cname)
        self.field = field
        fx.cls(self.name)
        methods = fx.methods_of(self.name)
        # initial value(s) from constructors
        init = set()
        for m in methods:
            if m.rec.get("ctor"):
                for i in m.rec.get("inits", []) or []:
                    if i.get("field") == field and i.get("init") is not None:
                        try:
                            init.add(_eval(i["init"], field, 0, {}))
                        except Unknown:
                            raise AnalysisBroken("R-DEAD: initial value of %s::%s is not constant" % (cname, field))
        if not init:
            raise AnalysisBroken("R-DEAD: no constructor initialiser for %s::%s" % (cname, field))
        # setters: sequences of `field op= const` at statement level
        setters = []
        self.copying = []
        for m in methods:
            if m.rec.get("ctor") or m.rec.get("dtor") or m.body is None or m.rec.get("const"):
                continue
            steps = []
            writes_field = False
            ok = True
            for n in m.walk():
                if n.get("k") in ("BinaryOperator", "CompoundAssignOperator") and n.get("op") in ("=", "&=", "|=", "^="):
                    l, r = n["c"]
                    if F.is_this_field(l, field):
                        writes_field = True
                        steps.append((n["op"], r))
                elif n.get("k") == "UnaryOperator" and n.get("op") in ("++", "--") and F.is_this_field((n.get("c") or [{}])[0], field):
                    ok = False
            if writes_field:
                setters.append((m, steps, ok))
        dom = set(init)
        work = list(init)
        guard = 0
        while work:
            guard += 1
            if guard > 5000:
                raise AnalysisBroken("R-DEAD: domain of %s::%s does not close" % (cname, field))
            v = work.pop()
            for m, steps, ok in setters:
                if not ok:
                    raise AnalysisBroken("R-DEAD: %s changes %s in a way that is not constant" % (m.sig, field))
                cur = v
                try:
                    for op, r in steps:
                        x = _eval(r, field, cur, {})
                        cur = x if op == "=" else (cur & x if op == "&=" else (cur | x if op == "|=" else cur ^ x))
                except Unknown:
                    # copies the status of another object of the same class: no new value
                    self.copying.append(m.sig)
                    continue
                if cur not in dom:
                    dom.add(cur)
                    work.append(cur)
        self.domain = frozenset(dom)
        # predicates
        self.preds = {}
        pending = []
        for m in methods:
            if m.params or not m.rec.get("const") or m.rec.get("ret") != "bool":
                continue
            e = _single_return(m)
            if e is not None:
                pending.append((m, e))
        for _ in range(4):
            for m, e in pending:
                if m.name in self.preds:
                    continue
                try:
                    self.preds[m.name] = frozenset(v for v in self.domain if _eval(e, field, v, self.preds))
                except Unknown:
                    pass
        self.methods = {m.name: m for m in methods}


def _delegates(fx, status):
    """(class, method) -> (member field, status class, predicate) for `bool f() const { return member.pred(); }`"""
    out = {}
    by_cls = {s.name: s for s in status}
    for fn in fx.functions.values():
        if fn.cls is None or fn.params or fn.rec.get("ret") != "bool":
            continue
        e = _single_return(fn)
        if e is None or e.get("k") != "CXXMemberCallExpr" or F.call_args(e):
            continue
        obj = F.call_object(e)
        if obj is None or not F.is_this_field(obj):
            continue
        ccls = strip_targs(e.get("calleeClass") or "")
        pname = strip_targs(e.get("callee") or "").rsplit("::", 1)[-1]
        s = by_cls.get(ccls)
        if s is not None and pname in s.preds:
            out[(strip_targs(fn.cls), fn.name)] = (obj["member"], s, pname)
    return out


def _cond_pred(node, by_cls, deleg):
    """-> (receiver key, status class, truth set, exact) or None.
    exact=False: the truth set is an upper bound (`pred && something`)."""
    neg = False
    n = node
    while n is not None and n.get("k") == "UnaryOperator" and n.get("op") == "!":
        neg = not neg
        n = (n.get("c") or [None])[0]
    if n is None:
        return None
    if n.get("k") == "BinaryOperator" and n.get("op") == "&&" and not neg:
        for side in n["c"]:
            r = _cond_pred(side, by_cls, deleg)
            if r is not None:
                return (r[0], r[1], r[2], False)
        return None
    if n.get("k") != "CXXMemberCallExpr" or F.call_args(n):
        return None
    obj = F.call_object(n)
    if obj is None:
        return None
    ccls = strip_targs(n.get("calleeClass") or "")
    pname = strip_targs(n.get("callee") or "").rsplit("::", 1)[-1]
    s = by_cls.get(ccls)
    if s is not None and pname in s.preds:
        ts = s.preds[pname]
        key = F.expr_text(obj)
    elif (ccls, pname) in deleg:
        member, s, p2 = deleg[(ccls, pname)]
        ts = s.preds[p2]
        key = F.expr_text(obj) + "." + member
    else:
        return None
    if neg:
        ts = s.domain - ts
    return (key, s, ts, True)


def rule_dead_branches(ctx, files=None, floor_chains=None, floor_branches=None):
    fx = ctx.facts
    table = engine.load_table("dead.json")
    status = [StatusClass(fx, e["class"], e["field"]) for e in table["status_classes"]]
    by_cls = {s.name: s for s in status}
    for s, e in zip(status, table["status_classes"]):
        missing = set(e.get("predicates", [])) - set(s.preds)
        if missing:
            raise AnalysisBroken("R-DEAD: predicates %s of %s are no longer constant expressions over %s"
                                 % (sorted(missing), short(s.name), s.field))
    deleg = _delegates(fx, status)
    n_chains = n_br = 0
    for fn in sorted(fx.functions.values(), key=lambda f: f.key):
        if fn.body is None or not fn.file.startswith(("lib/gnu_gama", "src/")):
            continue
        if files is not None and not any(fn.file.startswith(p) for p in files):
            continue
        ifs = [n for n in fn.walk() if n.get("k") == "IfStmt"]
        nested_else = {n["else"]["id"] for n in ifs if isinstance(n.get("else"), dict) and n["else"].get("k") == "IfStmt"}
        ordinal = 0
        for top in ifs:
            if top["id"] in nested_else:
                continue
            # collect the chain
            chain = []
            cur = top
            while cur is not None and cur.get("k") == "IfStmt":
                chain.append(cur)
                cur = cur.get("else") if isinstance(cur.get("else"), dict) else None
            if len(chain) < 2:
                continue
            conds = [_cond_pred(c.get("cond"), by_cls, deleg) for c in chain]
            if sum(1 for c in conds if c is not None) < 2:
                continue
            first = next(c for c in conds if c is not None)
            key0, s0 = first[0], first[1]
            remaining = set(s0.domain)
            ordinal += 1
            n_chains += 1
            ctx.saw(fn)
            for bi, (node, c) in enumerate(zip(chain, conds)):
                if c is None or c[0] != key0 or c[1] is not s0:
                    continue     # a condition on something else: nothing known, nothing removed
                ts = c[2] & remaining
                text = F.expr_text(node.get("cond"))
                n_br += 1
                ctx.report(RULE, "%s:chain%d:%s" % (fn.sig, ordinal, text.replace(" ", "")), bool(ts),
                           fn.where(node), fn.short,
                           "" if ts else "the branch `%s` can never be taken: every status for which it holds (%s) is "
                           "already caught by an earlier branch of the chain - the tests are in the wrong order"
                           % (text, sorted(c[2])),
                           {"holds_for": sorted(c[2]), "still_possible": sorted(remaining)})
                if c[3]:
                    remaining -= c[2]
    ctx.floor(RULE, int(floor_chains or table.get("floor_chains", 1)), n_chains, "if/else-if chains over status predicates")
    ctx.floor(RULE, int(floor_branches or table.get("floor_branches", 2)), n_br, "status-predicate branches")
    return {"status_domains": {short(s.name): sorted(s.domain) for s in status}}


def rule_dead_local(ctx):
    return rule_dead_branches(ctx, files=("lib/gnu_gama/local", "lib/gnu_gama/xml", "src/"), floor_chains=24, floor_branches=70)


def rule_dead_g3(ctx):
    return rule_dead_branches(ctx, files=("lib/gnu_gama/g3", "lib/gnu_gama/xml/dataparser", "src/gama-g3"), floor_chains=4, floor_branches=12)
