"""R-HOM / R-HOM-SEL: dimensional analysis of the reported statistics, the unit being the a priori
reference standard deviation.

gama builds the adjustment so that every quantity is homogeneous in s = LocalNetwork::m_0_apr_:
weights (s/stdev)^2 have degree 2, the homogenised design matrix and right-hand side degree 1, v'Pv degree 2,
cofactors of the unknowns degree -2 (q_bb of the homogenised system 0, q_bx -1), the reference deviation
(a priori, a posteriori or `m_0()`) degree 1; input data, residuals, adjusted values, probabilities and
distribution quantiles degree 0.  A printed standard deviation m_0()*sqrt(q) therefore has degree 0 - the
clause of C09 "changing only the a priori reference deviation rescales v'Pv and nothing else".

rule_hom - an abstract interpretation over the exported CFGs:

* a value is a degree (exact rational) plus the exponents of the two distinguished sources `m_0()` and
  `apriori_m_0()`; a literal zero is degree-polymorphic;
* product adds, quotient subtracts, sqrt halves, pow with a constant exponent multiplies; sum / difference /
  comparison / ?: / min / max / atan2 require equal degrees (a mismatch is a violation by itself);
  transcendental and quantile functions require degree 0;
* locals are flow-sensitive (a variable re-used for a value of another degree is fine); states are kept
  apart per outcome of side-effect-free branch conditions over locals, so `if (k) x = sqrt(x/q); ...
  if (k) out << x/m;` is followed exactly; fields of the writer classes are the join of all their writes;
  fields of LocalNetwork have tabled degrees and every write in the modelled members is checked;
* calls are followed context-sensitively through every callee with a body (return value, mutable reference
  parameters, constructors of the writer visitors); sources without body come from `tables/hom.json`;
* anything that cannot be modelled on the way to a checked value is exit 2 (AnalysisBroken), never a verdict.

Checked: every floating operand of `<<` in the result writers (directly or through forwarding helpers such as
tagnl / tdRight / double2str), keyed by the XML tag / assignment name written just before it or else by the set
of sources it is built from; the return values / out parameters of the statistics accessors of LocalNetwork
(degree and exponent of m_0()); the writes of sigma_L, vahkopr, suma_pvv_, r; the cofactor matrices handed to
the solver; homogeneity of every sum and comparison in the analysed functions; and that a writer never uses
apriori_m_0() as the scale of a dimensionless result (the scale comes from m_0() only).

rule_hom_selector - the reference-deviation type: Normal is reached only under the a priori polarity of the
type predicates and Student only under the a posteriori one (branch edges that every path to the call must
take, so early returns and predicates held in locals are fine), both alternatives are handled, m_0() returns
the a priori value under a priori and the a posteriori one under a posteriori, vocabulary literals naming a
type are written under the matching polarity, and a value written under a name of one of the two deviations
is built from that deviation's sources.

Nothing is executed; no source text, line number or statement order is matched.
"""
import re
from fractions import Fraction

import engine
import facts as F
from facts import AnalysisBroken, walk, is_call, call_args, strip_targs, short
import lin

RULE = "R-HOM"
RULE_SEL = "R-HOM-SEL"

CASTS = lin.CASTS + ("CXXFunctionalCastExpr", "CXXStaticCastExpr")
FLOAT_TYPES = lin.FLOAT_TYPES
NUM_PREFIX = ("GNU_gama::Vec<", "GNU_gama::Mat<", "GNU_gama::CovMat<", "GNU_gama::MatVec", "GNU_gama::VecBase",
              "GNU_gama::MatBase", "GNU_gama::SymMat", "GNU_gama::BandMat", "GNU_gama::TransVec",
              "GNU_gama::TransMat", "std::vector<double", "std::vector<float", "std::array<double",
              "std::pair<double", "std::tuple<double", "GNU_gama::BlockDiagonal<", "GNU_gama::SparseMatrix<",
              "GNU_gama::SparseVector<")

_TABLE = None


def table():
    global _TABLE
    if _TABLE is None:
        _TABLE = engine.load_table("hom.json")
    return _TABLE


# =========================================================================== values

Z = ("z",)                      # literal zero: any degree


def D(d=0, m=0, a=0):
    return ("d", Fraction(d), None if m is None else Fraction(m), None if a is None else Fraction(a))


D0 = D(0)


def U(why):
    return ("u", why)


def X(why):
    return ("x", why)


def vstr(v):
    if v is None:
        return "unset"
    k = v[0]
    if k == "z":
        return "0 (any degree)"
    if k == "d":
        s = "degree %s" % v[1]
        ex = []
        if v[2] is None:
            ex.append("m_0()^?")
        elif v[2] != 0:
            ex.append("m_0()^%s" % v[2])
        if v[3] is None:
            ex.append("apriori^?")
        elif v[3] != 0:
            ex.append("apriori^%s" % v[3])
        return s + (" [" + " ".join(ex) + "]" if ex else "")
    if k == "c":
        return "path-dependent degree {%s}" % ", ".join(str(x) for x in sorted(v[1]))
    if k == "x":
        return "inhomogeneous (%s)" % v[1]
    return "unknown (%s)" % v[1]


def parse_value(spec):
    """table value: number, or [d], [d, m], [d, m, a]"""
    if isinstance(spec, (int, float, str)):
        return D(Fraction(str(spec)))
    spec = list(spec)
    d = Fraction(str(spec[0]))
    m = Fraction(str(spec[1])) if len(spec) > 1 and spec[1] is not None else (0 if len(spec) < 2 else None)
    a = Fraction(str(spec[2])) if len(spec) > 2 and spec[2] is not None else (0 if len(spec) < 3 else None)
    return D(d, m, a)


def join(a, b):
    """value of a variable reached along two paths / weak update of a container"""
    if a is None:
        return b
    if b is None:
        return a
    if a == b:
        return a
    ka, kb = a[0], b[0]
    if ka == "u":
        return a
    if kb == "u":
        return b
    if ka == "x":
        return a
    if kb == "x":
        return b
    if ka == "z":
        return b
    if kb == "z":
        return a
    if ka == "d" and kb == "d" and a[1] == b[1]:
        return ("d", a[1], a[2] if a[2] == b[2] else None, a[3] if a[3] == b[3] else None)
    alts = set()
    for v in (a, b):
        if v[0] == "d":
            alts.add(v[1])
        else:
            alts |= set(v[1])
    if len(alts) > 6:
        return U("the degree grows without bound along a loop")
    return ("c", frozenset(alts))


def _addx(x, y, sign):
    if x is None or y is None:
        return None
    return x + sign * y


def mul(a, b, sign=1):
    """a*b (sign=1) or a/b (sign=-1)"""
    if a is None or b is None:
        return None
    for v in (a, b):
        if v[0] == "u":
            return v
    for v in (a, b):
        if v[0] == "x":
            return v
    for v in (a, b):
        if v[0] == "c":
            return U("operand with a " + vstr(v))
    if a[0] == "z":
        return Z
    if b[0] == "z":
        return Z if sign == 1 else U("division by a literal zero")
    return ("d", a[1] + sign * b[1], _addx(a[2], b[2], sign), _addx(a[3], b[3], sign))


def scale(a, f):
    """a**f for a constant rational f"""
    if a is None or a[0] in ("u", "x", "z"):
        return a
    if a[0] == "c":
        return U("operand with a " + vstr(a))
    return ("d", a[1] * f, None if a[2] is None else a[2] * f, None if a[3] is None else a[3] * f)


def is_float_t(t):
    t = (t or "").replace("const ", "").replace("&", "").strip()
    return t in ("double", "float", "long double")


def is_num_t(t):
    """type that carries numeric content with a degree (scalar floating or matvec / vector<double>)"""
    t0 = (t or "").strip()
    if t0.startswith("const "):
        t0 = t0[6:]
    t0 = t0.replace("&", "").replace("*", "").strip()
    if t0.startswith("const "):
        t0 = t0[6:]
    if t0 in ("double", "float", "long double"):
        return True
    return t0.startswith(NUM_PREFIX)


_ST = {}


def stripped(name):
    r = _ST.get(name)
    if r is None:
        r = _ST[name] = F.strip_targs(name or "")
    return r


def unwrap(n):
    while n is not None and n.get("k") in CASTS and n.get("c"):
        n = n["c"][0]
    return n


def plain(n):
    c = stripped(n.get("callee") or "")
    return c[5:] if c.startswith("std::") else c


def fkey(fn):
    """stable, position-free display key of a function: template arguments stripped, parameter types kept
    only for visit(T*) overloads"""
    s = short(fn.rec["qn"])
    if fn.name == "visit" and fn.params:
        t = fn.params[0].get("t", "")
        t = t.replace("GNU_gama::local::", "").replace("GNU_gama::", "").replace("const ", "").replace("*", "").strip()
        s += "(%s)" % t
    if fn.name.startswith("operator"):
        s = short(fn.rec["qn"])
    return s


MATH_KEEP = {"fabs", "fabsf", "fabsl", "abs", "labs", "floor", "ceil", "round", "trunc", "lround", "nearbyint",
             "rint"}
MATH_SQRT = {"sqrt", "sqrtf", "sqrtl"}
MATH_DIMLESS = {"sin", "cos", "tan", "asin", "acos", "atan", "sinh", "cosh", "tanh", "exp", "log", "log10",
                "log2", "exp2", "erf", "erfc", "tgamma", "lgamma"}
MATH_SAME = {"fmod", "remainder", "fmin", "fmax", "min", "max", "hypot", "copysign", "fdim"}
MATH_ATAN2 = {"atan2", "atan2f"}
MATH_BOOL = {"isnan", "isinf", "isfinite", "signbit"}
MATVEC_CLASSES = {"MemRep", "MatVecBase", "VecBase", "Vec", "MatBase", "Mat", "CovMat", "SymMat", "BandMat",
                  "TransVec", "TransMat", "MatVec", "BlockDiagonal", "SparseMatrix", "SparseVector"}
CONTAINER_ADD = {"push_back", "emplace_back", "push_front", "insert", "emplace"}
STREAM_MANIP = {"setw", "setprecision", "setfill", "fixed", "scientific", "left", "right", "setiosflags",
                "resetiosflags", "showpos", "noshowpos", "internal"}


# =========================================================================== engine

class Model:
    """All activations of one run (one round of the class-field fixpoint)."""

    def __init__(self, ctx):
        self.ctx = ctx
        self.fx = ctx.facts
        self.T = table()
        self.src = {k: parse_value(v["degree"]) for k, v in self.T["sources"].items()}
        self.src_args0 = {k for k, v in self.T["sources"].items() if v.get("args_degree0")}
        self.cls_default = {k: parse_value(v["degree"]) for k, v in self.T["class_defaults"].items()}
        self.fields = {k: parse_value(v["degree"]) for k, v in self.T["fields"].items()}
        self.transforms = self.T.get("inplace_transforms", {})
        self.internal = self.T.get("internal_sinks", {})
        self.scope_files = set(self.T["writer_files"].keys())
        self.fieldval = {}          # (owner, member) -> joined value of all writes (previous round)
        self.fieldnew = {}
        self.memo = {}
        self.active = set()
        self.sinks = []             # (fn, node, operand, value, tag)
        self.issues = []            # (fn, node, message)
        self.checked = {}           # fn.key -> number of homogeneity checks with a definite verdict
        self.fwrites = []           # (fn, node, owner, member, value)
        self.isinks = []            # (fn, node, name, value, demanded)
        self.rets = {}              # fn.key -> joined return value over all activations
        self.outs = {}              # (fn.key, idx) -> joined out value
        self._psink = {}
        self._defs = {}
        self._atoms = {}
        self._fwsyn = None
        self.analysed = set()
        self.unreached = []         # writer functions with numeric parameters and no call site in the build

    # ---------------------------------------------------------------- scope
    def in_scope(self, fn):
        return fn.file in self.scope_files

    def is_model_cls(self, owner):
        return stripped(owner or "") == self.T["model_class"]

    # ---------------------------------------------------------------- fields
    def field_value(self, owner, member, t):
        owner = stripped(owner or "")
        k = "%s::%s" % (owner, member)
        if k in self.fields:
            return self.fields[k]
        if not is_num_t(t):
            return D0
        if owner in self.cls_default:
            return self.cls_default[owner]
        for b in self.fx.bases_of(owner) if owner in self.fx.classes else ():
            if b in self.cls_default:
                return self.cls_default[b]
        if owner.startswith("std::"):
            return None         # pair.second etc. are handled by the caller
        if (owner, member) in self.fieldval:
            return self.fieldval[(owner, member)]
        if self.is_model_cls(owner):
            return U("field %s of %s has no tabled degree" % (member, short(owner)))
        return None             # bottom: not written (yet)

    def write_field(self, fn, node, owner, member, t, v):
        owner = stripped(owner or "")
        if not is_num_t(t) or v is None:
            return
        key = (owner, member)
        self.fieldnew[key] = join(self.fieldnew.get(key), v)
        self.fwrites.append((fn, node, owner, member, v))

    # ---------------------------------------------------------------- syntactic helpers
    def psink_params(self, fn, stack=()):
        """indices of the parameters of fn that are written to a stream as they are (directly or through
        another forwarding function)"""
        if fn.key in self._psink:
            return self._psink[fn.key]
        if fn.key in stack or fn.body is None:
            return set()
        pidx = {p.get("decl"): i for i, p in enumerate(fn.params) if "decl" in p}
        for d in self.local_defs(fn):
            pidx.pop(d, None)           # a parameter that is assigned in the body is not forwarded as it is
        out = set()
        for n in fn.walk():
            if n.get("k") == "CXXOperatorCallExpr" and n.get("op") == "<<":
                a = call_args(n)
                if len(a) == 2 and is_float_t(a[1].get("t")):
                    o = unwrap(a[1])
                    if o.get("k") == "DeclRefExpr" and o["ref"].get("dk") == "parm" and o["ref"].get("decl") in pidx:
                        out.add(pidx[o["ref"]["decl"]])
            elif n.get("k") in ("CallExpr", "CXXMemberCallExpr"):
                g = self.fx.functions.get(n.get("calleeKey") or "")
                if g is None or g.body is None:
                    continue
                gs = self.psink_params(g, stack + (fn.key,))
                if not gs:
                    continue
                for i, a in enumerate(call_args(n)):
                    o = unwrap(a)
                    if i in gs and o.get("k") == "DeclRefExpr" and o["ref"].get("dk") == "parm" \
                            and o["ref"].get("decl") in pidx:
                        out.add(pidx[o["ref"]["decl"]])
        self._psink[fn.key] = out
        return out

    def local_defs(self, fn):
        """decl -> list of defining expressions / ('out', call, idx) of the locals of fn (flow-insensitive;
        used for sink signatures only, never for degrees)"""
        r = self._defs.get(fn.key)
        if r is not None:
            return r
        r = {}
        for n in fn.walk():
            k = n.get("k")
            c = n.get("c") or []
            if k == "DeclStmt":
                for d in n.get("decls", []):
                    if "decl" in d and d.get("init") is not None:
                        r.setdefault(d["decl"], []).append(d["init"])
            elif k in ("BinaryOperator", "CompoundAssignOperator") and n.get("op") in ("=", "+=", "-=", "*=", "/=") \
                    and len(c) == 2:
                l = unwrap(c[0])
                if l.get("k") == "DeclRefExpr" and "decl" in l["ref"]:
                    r.setdefault(l["ref"]["decl"], []).append(c[1])
            elif k == "CXXOperatorCallExpr" and n.get("op") in ("=", "+=", "-=", "*=", "/=", "()", "[]"):
                a = call_args(n)
                if n.get("op") in ("()", "[]"):
                    continue
                if len(a) == 2:
                    l = unwrap(a[0])
                    if l.get("k") == "DeclRefExpr" and "decl" in l["ref"]:
                        r.setdefault(l["ref"]["decl"], []).append(a[1])
            if is_call(n) and k != "CXXOperatorCallExpr":
                pts = lin.param_types(self.fx, n) or []
                for i, a in enumerate(call_args(n)):
                    o = unwrap(a)
                    if i < len(pts) and lin._mutable_ref(pts[i]) and o.get("k") == "DeclRefExpr" \
                            and "decl" in o["ref"] and is_num_t(pts[i]):
                        r.setdefault(o["ref"]["decl"], []).append(("out", n, i))
                if k == "CXXMemberCallExpr" and plain(n).split("::")[-1] in CONTAINER_ADD:
                    o = unwrap(F.call_object(n) or {})
                    if o and o.get("k") == "DeclRefExpr" and "decl" in o["ref"]:
                        for a in call_args(n):
                            r.setdefault(o["ref"]["decl"], []).append(a)
        # element writes t(k) = e / t[k] = e
        for n in fn.walk():
            k = n.get("k")
            if k == "BinaryOperator" and n.get("op") in ("=", "+=", "-=", "*=", "/=") or \
                    k == "CompoundAssignOperator":
                c = n.get("c") or []
                if len(c) != 2:
                    continue
                l = unwrap(c[0])
                base = self._elem_base(l)
                if base is not None and base.get("k") == "DeclRefExpr" and "decl" in base["ref"]:
                    r.setdefault(base["ref"]["decl"], []).append(c[1])
        self._defs[fn.key] = r
        return r

    @staticmethod
    def _elem_base(l):
        """container expression of an element access v(i), v[i], *p, else None"""
        l = unwrap(l)
        if l is None:
            return None
        k = l.get("k")
        if k == "CXXOperatorCallExpr" and l.get("op") in ("()", "[]"):
            a = call_args(l)
            return unwrap(a[0]) if a else None
        if k == "ArraySubscriptExpr":
            return unwrap(l["c"][0])
        if k == "UnaryOperator" and l.get("op") == "*":
            b = unwrap(l["c"][0])
            while b is not None and b.get("k") == "UnaryOperator" and b.get("op") in ("++", "--"):
                b = unwrap(b["c"][0])
            return b
        return None

    def field_write_exprs(self):
        """(owner, member) -> [(fn, expr)] over all functions of the writer files (syntactic; signatures)"""
        if self._fwsyn is not None:
            return self._fwsyn
        r = {}
        for fn in self.fx.functions.values():
            if not self.in_scope(fn) or not fn.cls:
                continue
            for init in fn.rec.get("inits", []) or []:
                if init.get("field") and init.get("init") is not None:
                    r.setdefault((stripped(fn.cls), init["field"]), []).append((fn, init["init"]))
            if fn.body is None:
                continue
            for n in fn.walk():
                if n.get("k") in ("BinaryOperator", "CompoundAssignOperator") and n.get("op") in (
                        "=", "+=", "-=", "*=", "/=") and len(n.get("c") or []) == 2:
                    l = unwrap(n["c"][0])
                    b = self._elem_base(l) or l
                    if b.get("k") == "MemberExpr" and b.get("mk") == "field":
                        r.setdefault((stripped(b.get("owner") or ""), b["member"]), []).append((fn, n["c"][1]))
                elif n.get("k") == "CXXOperatorCallExpr" and n.get("op") in ("=", "+=", "-=", "*=", "/="):
                    a = call_args(n)
                    if len(a) == 2:
                        b = unwrap(a[0])
                        if b.get("k") == "MemberExpr" and b.get("mk") == "field":
                            r.setdefault((stripped(b.get("owner") or ""), b["member"]), []).append((fn, a[1]))
        self._fwsyn = r
        return r

    def atoms(self, fn, n, seen=None, depth=0):
        """names of the sources an expression is built from (through locals, writer-class fields and helper
        functions of the writer files): the position-free signature of a sink"""
        if seen is None:
            seen = set()
        out = set()
        if n is None or depth > 40:
            return out
        if isinstance(n, tuple):            # ('out', call, idx)
            out.add("%s#%d" % (plain(n[1]).split("::")[-1], n[2]))
            return out
        k = n.get("k")
        if k == "LambdaExpr":
            return out
        c = list(F.children(n))
        if k == "DeclRefExpr":
            dk = n["ref"].get("dk")
            if dk in ("local", "parm") and "decl" in n["ref"]:
                key = (fn.key, n["ref"]["decl"])
                if key not in seen:
                    seen.add(key)
                    for e in self.local_defs(fn).get(n["ref"]["decl"], []):
                        out |= self.atoms(fn, e, seen, depth + 1)
            elif dk in ("global", "staticmember") and is_num_t(n.get("t")):
                g = self.fx.globals.get(n["ref"].get("qn"))
                if not (g is not None and (g.get("t") or "").startswith("const")):
                    out.add((n["ref"].get("qn") or n["ref"].get("name")).split("::")[-1])
            return out
        if k == "MemberExpr" and n.get("mk") == "field":
            owner = stripped(n.get("owner") or "")
            if is_num_t(n.get("t")):
                ws = self.field_write_exprs().get((owner, n["member"]))
                key = ("F", owner, n["member"])
                if ws and "%s::%s" % (owner, n["member"]) not in self.fields:
                    if key not in seen:
                        seen.add(key)
                        for g, e in ws:
                            out |= self.atoms(g, e, seen, depth + 1)
                    return out
                if not owner.startswith("std::"):
                    out.add(n["member"])
                    return out
            for ch in c:
                out |= self.atoms(fn, ch, seen, depth + 1)
            return out
        if is_call(n):
            name = plain(n)
            last = name.split("::")[-1]
            args = call_args(n)
            if k == "CXXOperatorCallExpr" or k in ("CXXConstructExpr", "CXXTemporaryObjectExpr"):
                for a in args:
                    out |= self.atoms(fn, a, seen, depth + 1)
                return out
            if last in MATH_KEEP | MATH_SQRT | MATH_DIMLESS | MATH_SAME | MATH_ATAN2 | {"pow", "powf", "swap"}:
                for a in args:
                    out |= self.atoms(fn, a, seen, depth + 1)
                return out
            g = self.fx.functions.get(n.get("calleeKey") or "")
            # helpers are looked into: functions of the writer files, and an untabled member of the same class
            # as the calling function (a computation extracted into a private helper keeps its sources)
            same_class_helper = (g is not None and g.cls is not None and fn.cls is not None
                                 and stripped(g.cls) == stripped(fn.cls)
                                 and stripped(g.qn) not in self.src and name not in self.src)
            if g is not None and g.body is not None and (self.in_scope(g) or same_class_helper) and is_num_t(n.get("t")):
                key = ("C", g.key)
                if key not in seen:
                    seen.add(key)
                    for r in lin.return_stmts(g):
                        out |= self.atoms(g, r["c"][0], seen, depth + 1)
                for a in args:
                    if is_num_t(a.get("t")):
                        out |= self.atoms(fn, a, seen, depth + 1)
                return out
            if self.is_model_cls(n.get("calleeClass")) and (n.get("t") or "").replace("const ", "") in \
                    lin.INT_TYPES and k == "CXXMemberCallExpr":
                out.add(last)
                return out
            if is_num_t(n.get("t")):
                obj = F.call_object(n)
                if not (obj is not None and is_num_t(obj.get("t"))
                        and stripped(n.get("calleeClass") or "").split("::")[-1] in MATVEC_CLASSES):
                    out.add(last)
                if obj is not None and is_num_t(obj.get("t")):
                    out |= self.atoms(fn, obj, seen, depth + 1)
                return out
            for a in args:
                out |= self.atoms(fn, a, seen, depth + 1)
            obj = F.call_object(n)
            if obj is not None:
                out |= self.atoms(fn, obj, seen, depth + 1)
            return out
        for ch in c:
            out |= self.atoms(fn, ch, seen, depth + 1)
        return out

    # ---------------------------------------------------------------- activations
    def activate(self, fn, args):
        """(return value, {param index: value at exit}) of fn called with the argument values args"""
        key = (getattr(fn, "ukey", fn.key), tuple(args))
        r = self.memo.get(key)
        if r is not None:
            return r
        if key in self.active or len(self.active) > 60:
            return (U("recursive call of %s" % fn.short), {})
        self.active.add(key)
        try:
            act = Act(self, fn, args)
            r = act.run()
        finally:
            self.active.discard(key)
        self.memo[key] = r
        self.analysed.add(fn)
        k = fn.key
        self.rets.setdefault(k, set()).update(act.ret_alts)
        for i, alts in act.out_alts.items():
            self.outs.setdefault((k, i), set()).update(alts)
        return r


class Act:
    """One activation: forward dataflow over the CFG, then one recording pass."""

    def __init__(self, M, fn, args):
        self.M = M
        self.fx = M.fx
        self.fn = fn
        self.args = list(args)
        self.st = {}
        self.facts = set()
        self.record = False
        self.ret = None
        self.ret_alts = set()       # the values of the individual return statements
        self.out_alts = {}          # param index -> values at the individual exits
        self.decl_init = {}
        for n in fn.walk():
            if n.get("k") == "DeclStmt":
                for d in n.get("decls", []):
                    if "decl" in d:
                        self.decl_init[d["decl"]] = d
        self.pidx = {p.get("decl"): i for i, p in enumerate(fn.params) if "decl" in p}
        self._seen_issue = set()
        self._seen_check = set()

    # ---------------------------------------------------------------- driver
    def run(self):
        fn = self.fn
        if fn.body is None:
            return (U("%s has no body" % fn.short), {})
        cfg = fn.cfg
        st0 = {}
        for i, p in enumerate(fn.params):
            if "decl" in p:
                if i < len(self.args) and self.args[i] is not None:
                    st0[p["decl"]] = self.args[i]
                elif is_num_t(p.get("t")):
                    st0[p["decl"]] = U("parameter %s of %s (no calling context)" % (p.get("name"), fn.short))
                else:
                    st0[p["decl"]] = D0
        self.st = st0
        for init in fn.rec.get("inits", []) or []:
            if init.get("field") and init.get("init") is not None:
                v = self.eval(init["init"])
                ft = self._field_type(fn.cls, init["field"])
                self.st[("f", stripped(fn.cls or ""), init["field"])] = v
                self._pending_inits = getattr(self, "_pending_inits", [])
                self._pending_inits.append((init, v, ft))
        st0 = dict(self.st)
        # a state is a list of disjuncts (facts, vars): facts are the outcomes of side-effect-free branch
        # conditions over locals that still hold (killed when one of their variables is assigned), so that
        # `if (k) x = sqrt(x/q); ... if (k) out << x/m;` sees the re-typed x only
        IN = {b: None for b in cfg.blocks}
        IN[cfg.entry] = [(frozenset(), st0)]
        work = {cfg.entry}
        rounds = 0
        while work:
            rounds += 1
            if rounds > 60000:
                raise AnalysisBroken("R-HOM: dataflow of %s did not converge" % fn.short)
            b = max(work)               # clang numbers the blocks against the control flow: entry is highest
            work.discard(b)
            outs_b = self._flow_block(cfg, b, IN[b])
            for s, lst in outs_b.items():
                new = _merge_disjuncts((IN[s] or []) + lst)
                if IN[s] is None or not _same_disjuncts(IN[s], new):
                    IN[s] = new
                    work.add(s)
        # recording pass
        self.record = True
        for init, v, ft in getattr(self, "_pending_inits", []):
            self.M.write_field(fn, init["init"], fn.cls, init["field"], ft, v)
        for b in cfg.blocks:
            if IN[b] is None:
                continue
            self._flow_block(cfg, b, IN[b])
        outs = {}
        ex = {}
        for _, vs in IN.get(cfg.exit) or []:
            for kx, v in vs.items():
                ex[kx] = join(ex.get(kx), v)
            for i, p in enumerate(fn.params):
                if "decl" in p and lin._mutable_ref(p.get("t", "")) and is_num_t(p.get("t")):
                    self.out_alts.setdefault(i, set()).add(vs.get(p["decl"]))
        for i, p in enumerate(fn.params):
            if "decl" in p and lin._mutable_ref(p.get("t", "")) and is_num_t(p.get("t")):
                outs[i] = ex.get(p["decl"])
        return (self.ret, outs)

    def _field_type(self, cls, name):
        rec = self.fx.classes.get(stripped(cls or ""))
        if rec:
            for f in rec.get("fields", []):
                if f.get("name") == name:
                    return f.get("t")
        return "double"

    def _flow_block(self, cfg, b, disjuncts):
        """run block b on every disjunct; {successor: [(facts, vars)]}"""
        out = {}
        blk = cfg.blocks[b]
        raw = list(blk.get("succ", []))
        ck = None
        if blk.get("cond") is not None and len(raw) == 2:
            cn = self.fn.nodes.get(blk["cond"])
            ck = self.cond_key(cn) if cn is not None else None
        for facts, vs in disjuncts:
            self.st = dict(vs)
            self.facts = set(facts)
            self._block(cfg, b)
            fr = frozenset(self.facts)
            if ck is None:
                for s in cfg.succ.get(b, []):
                    out.setdefault(s, []).append((fr, dict(self.st)))
                continue
            key, neg, cvars = ck
            for idx, s in enumerate(raw):
                if s is None or s < 0:
                    continue
                val = (idx == 0) != neg
                if (key, not val, cvars) in fr:
                    continue                    # this outcome contradicts an earlier, still valid one
                out.setdefault(s, []).append((fr | {(key, val, cvars)}, dict(self.st)))
        return out

    def cond_key(self, cond):
        """(canonical text, negated, variables) of a side-effect-free condition over scalar locals"""
        n = unwrap(cond)
        neg = False
        while n is not None and n.get("k") == "UnaryOperator" and n.get("op") == "!":
            neg = not neg
            n = unwrap(n["c"][0])
        if n is None:
            return None
        vs = set()

        def text(x):
            x = unwrap(x)
            k = x.get("k")
            if k == "DeclRefExpr" and x["ref"].get("dk") in ("local", "parm") and "decl" in x["ref"] \
                    and (x.get("t") or "").replace("const ", "") in lin.INT_TYPES + ("double", "float"):
                vs.add(x["ref"]["decl"])
                return "#%s" % x["ref"]["decl"]
            if k in ("IntegerLiteral", "FloatingLiteral", "CXXBoolLiteralExpr"):
                return str(x.get("v"))
            if k == "BinaryOperator" and x.get("op") in ("+", "-", "*", "<", ">", "<=", ">=", "==", "!=") \
                    and len(x.get("c") or []) == 2:
                a, b = text(x["c"][0]), text(x["c"][1])
                if a is None or b is None:
                    return None
                return "(%s%s%s)" % (a, x["op"], b)
            return None
        t = text(n)
        if t is None or not vs:
            return None
        return (t, neg, frozenset(vs))

    def kill(self, decl):
        if self.facts:
            self.facts = {f for f in self.facts if decl not in f[2]}

    def _block(self, cfg, b):
        nodes = self.fn.nodes
        for e in cfg.blocks[b].get("el", []):
            if isinstance(e, dict):
                d = self.decl_init.get(e.get("decl"))
                if d is not None and d.get("init") is not None:
                    self.st[d["decl"]] = self.eval(d["init"])
                continue
            n = nodes.get(e)
            if n is not None:
                self.transfer(n)

    # ---------------------------------------------------------------- lvalues
    def lvalue(self, l):
        """('var', key, strong) | ('field', owner, member, t, strong, thisfield) | None"""
        l = unwrap(l)
        if l is None:
            return None
        k = l.get("k")
        if k == "DeclRefExpr" and "decl" in l["ref"]:
            return ("var", l["ref"]["decl"], True)
        if k == "MemberExpr" and l.get("mk") == "field":
            base = unwrap((l.get("c") or [None])[0])
            this = base is not None and base.get("k") == "CXXThisExpr"
            return ("field", stripped(l.get("owner") or ""), l["member"], l.get("t"), True, this)
        base = Model._elem_base(l)
        if base is not None:
            r = self.lvalue(base)
            if r is None:
                return None
            if r[0] == "var":
                return ("var", r[1], False)
            return ("field", r[1], r[2], r[3], False, r[5])
        return None

    def assign(self, node, l, v, compound=None):
        lv = self.lvalue(l)
        if lv is None:
            return
        if lv[0] == "var":
            key = lv[1]
            self.kill(key)
            if lv[2]:
                self.st[key] = v
            else:
                self.st[key] = join(self.st.get(key), v)
            return
        _, owner, member, t, strong, this = lv
        key = ("f", owner, member)
        if this:
            if strong:
                self.st[key] = v
            else:
                cur = self.st.get(key)
                if cur is None:
                    cur = self.M.field_value(owner, member, t)
                self.st[key] = join(cur, v)
        if self.record:
            self.M.write_field(self.fn, node, owner, member, t, v)

    # ---------------------------------------------------------------- transfer
    def transfer(self, n):
        k = n.get("k")
        c = n.get("c") or []
        if k == "DeclStmt":
            for d in n.get("decls", []):
                if "decl" not in d:
                    continue
                self.kill(d["decl"])
                if d.get("init") is not None:
                    v = self.eval(d["init"])
                    if v == Z and not is_num_t(d.get("t")):
                        v = D0          # an integer counter is dimensionless, whatever it starts from
                    self.st[d["decl"]] = v
                else:
                    self.st[d["decl"]] = Z if is_num_t(d.get("t")) else D0
            return
        if k == "BinaryOperator" and n.get("op") == "=" and len(c) == 2:
            v = self.eval(c[1])
            if v == Z and not is_num_t(c[0].get("t")):
                v = D0
            self.assign(n, c[0], v)
            return
        if k == "CompoundAssignOperator" and len(c) == 2:
            self.assign(n, c[0], self.eval(n))
            return
        if k == "ReturnStmt":
            if c:
                v = self.eval(c[0])
                if self.record:
                    self.ret = join(self.ret, v)
                    self.ret_alts.add(v)
            return
        if k == "CXXOperatorCallExpr":
            op = n.get("op")
            a = call_args(n)
            if op == "=" and len(a) == 2:
                self.assign(n, a[0], self.eval(a[1]))
                return
            if op in ("+=", "-=", "*=", "/=") and len(a) == 2:
                self.assign(n, a[0], self.eval(n))
                return
            if op == "<<" and len(a) == 2 and self.record and is_float_t(a[1].get("t")):
                o = unwrap(a[1])
                if not (o.get("k") == "DeclRefExpr" and o["ref"].get("dk") == "parm"
                        and o["ref"].get("decl") in self.pidx
                        and self.pidx[o["ref"]["decl"]] in self.M.psink_params(self.fn)):
                    self.M.sinks.append((self.fn, n, a[1], self.eval(a[1]), self._chain_tag(n)))
                return
        if k == "UnaryOperator" and n.get("op") in ("++", "--") and c:
            o = unwrap(c[0])
            if o is not None and o.get("k") == "DeclRefExpr" and "decl" in o["ref"]:
                self.kill(o["ref"]["decl"])
            return
        if k in ("BinaryOperator", "ConditionalOperator") and self.record:
            self.eval(n)            # homogeneity checks with the state at this point
            return
        if k in ("CallExpr", "CXXMemberCallExpr", "CXXConstructExpr", "CXXTemporaryObjectExpr"):
            self.call(n, effects=True)
            return

    # ---------------------------------------------------------------- sink labels
    def _chain_tag(self, n):
        """tag from the string literal written just before the operand in the same << chain"""
        a = call_args(n)
        left = unwrap(a[0]) if a else None
        hops = 0
        while left is not None and left.get("k") == "CXXOperatorCallExpr" and left.get("op") == "<<" and hops < 6:
            la = call_args(left)
            if len(la) != 2:
                break
            o = unwrap(la[1])
            if o.get("k") == "StringLiteral":
                return tag_of(o.get("v") or "")
            if is_call(o) and plain(o).split("::")[-1] in STREAM_MANIP:
                left = unwrap(la[0])
                hops += 1
                continue
            if o.get("k") == "DeclRefExpr" and (o["ref"].get("name") in STREAM_MANIP):
                left = unwrap(la[0])
                hops += 1
                continue
            break
        return None

    # ---------------------------------------------------------------- issues
    def issue(self, node, msg):
        if self.record and node.get("id") not in self._seen_issue:
            self._seen_issue.add(node.get("id"))
            self.M.issues.append((self.fn, node, msg))

    def checked(self, node):
        if self.record and node.get("id") not in self._seen_check:
            self._seen_check.add(node.get("id"))
            self.M.checked[self.fn.key] = self.M.checked.get(self.fn.key, 0) + 1

    def same(self, a, b, node, what):
        """value of a (+|-|<|?:|min|max) b: equal degrees required"""
        if a is None:
            return b
        if b is None:
            return a
        for v in (a, b):
            if v[0] == "u":
                return v
        for v in (a, b):
            if v[0] == "x":
                return v
        if a[0] == "z":
            return b
        if b[0] == "z":
            return a
        for v in (a, b):
            if v[0] == "c":
                return U("operand with a " + vstr(v))
        self.checked(node)
        if a[1] != b[1]:
            msg = "%s of quantities of different degree in the reference deviation: %s is %s, %s is %s" % (
                what, F.expr_text(node["c"][0]) if node.get("c") else "?", vstr(a),
                F.expr_text(node["c"][-1]) if node.get("c") else "?", vstr(b))
            self.issue(node, msg)
            return X("%s of degree %s and degree %s" % (what, a[1], b[1]))
        return ("d", a[1], a[2] if a[2] == b[2] else None, a[3] if a[3] == b[3] else None)

    def div(self, a, b):
        """a/b; while the fixpoint is still running a divisor that is (so far) only the literal zero must not
        produce the absorbing 'unknown' (it would survive the later, definite state)"""
        if b == Z and not self.record and a is not None and a[0] not in ("u", "x"):
            return Z
        return mul(a, b, -1)

    def need0(self, v, node, what):
        """v must be dimensionless (argument of a transcendental / quantile function, exponent)"""
        if v is None or v[0] in ("u", "x", "z", "c"):
            return
        self.checked(node)
        if v[1] != 0:
            self.issue(node, "%s takes a quantity of %s; it is defined for dimensionless arguments only"
                       % (what, vstr(v)))

    # ---------------------------------------------------------------- expressions
    def eval(self, n):
        if n is None:
            return D0
        k = n.get("k")
        c = n.get("c") or []
        if k == "IntegerLiteral":
            return Z if n.get("v") in (0, "0") else D0
        if k == "FloatingLiteral":
            try:
                return Z if float(n.get("v")) == 0.0 else D0
            except (TypeError, ValueError):
                return D0
        if k in ("CXXBoolLiteralExpr", "CharacterLiteral", "StringLiteral", "CXXNullPtrLiteralExpr",
                 "GNUNullExpr", "UnaryExprOrTypeTraitExpr", "CXXThisExpr", "LambdaExpr", "CXXDefaultArgExpr",
                 "CXXScalarValueInitExpr", "ImplicitValueInitExpr", "CXXNewExpr", "CXXDeleteExpr",
                 "CXXTypeidExpr", "PredefinedExpr", "CXXThrowExpr", "SizeOfPackExpr"):
            return Z if k in ("CXXScalarValueInitExpr", "ImplicitValueInitExpr") else D0
        if k in CASTS or k in ("CXXDynamicCastExpr", "CXXReinterpretCastExpr", "CXXConstCastExpr"):
            return self.eval(c[0]) if c else D0
        if k == "InitListExpr":
            v = None
            for ch in c:
                v = join(v, self.eval(ch))
            return v if v is not None else Z
        if k == "UnaryOperator":
            op = n.get("op")
            if op == "!":
                return D0
            return self.eval(c[0]) if c else D0
        if k in ("BinaryOperator", "CompoundAssignOperator") and len(c) == 2:
            op = n.get("op")
            if op in ("&&", "||"):
                return D0
            if op == ",":
                return self.eval(c[1])
            if op == "=":
                return self.eval(c[1])
            a, b = self.eval(c[0]), self.eval(c[1])
            if op in ("*", "*="):
                return mul(a, b)
            if op in ("/", "/="):
                return self.div(a, b)
            if op in ("+", "-", "+=", "-="):
                return self.same(a, b, n, "sum/difference")
            if op in ("<", ">", "<=", ">=", "==", "!="):
                if is_float_t(c[0].get("t")) or is_float_t(c[1].get("t")):
                    self.same(a, b, n, "comparison")
                return D0
            return D0
        if k == "ConditionalOperator" and len(c) == 3:
            if is_num_t(n.get("t")):
                return self.same(self.eval(c[1]), self.eval(c[2]), n, "?: alternatives")
            return D0
        if k == "DeclRefExpr":
            return self.ref(n)
        if k == "MemberExpr":
            return self.member(n)
        if k == "ArraySubscriptExpr":
            return self.eval(c[0])
        if is_call(n):
            return self.call(n, effects=False)
        if k in ("CXXStdInitializerListExpr", "CXXBindTemporaryExpr", "ParenListExpr") and c:
            v = None
            for ch in c:
                v = join(v, self.eval(ch))
            return v
        if not is_num_t(n.get("t")):
            return D0
        return U("expression form %s is not modelled" % k)

    def ref(self, n):
        r = n["ref"]
        dk = r.get("dk")
        if dk in ("local", "parm"):
            d = r.get("decl")
            if d in self.st:
                return self.st[d]
            di = self.decl_init.get(d)
            if di is not None and di.get("init") is not None:
                return self.eval(di["init"])
            if not is_num_t(n.get("t")):
                return D0
            return U("local %s is read before the analysis has seen a definition" % r.get("name"))
        if dk in ("enumconst", "func"):
            return D0
        if dk in ("global", "staticmember"):
            qn = r.get("qn") or r.get("name")
            if qn in self.M.src:
                return self.M.src[qn]
            if not is_num_t(n.get("t")):
                return D0
            g = self.fx.globals.get(qn)
            if g is not None and g.get("init") is not None and (g.get("t") or "").startswith("const"):
                sub = Act(self.M, self.fn, [])
                return sub.eval(g["init"])
            if (n.get("t") or "").startswith("const") and g is None:
                return D0           # constexpr / macro-like constant of a header (M_PI-like)
            return U("global %s has no tabled degree" % qn)
        return D0

    def member(self, n):
        c = n.get("c") or []
        if n.get("mk") != "field":
            return D0
        owner = stripped(n.get("owner") or "")
        base = unwrap(c[0]) if c else None
        if owner.startswith("std::"):
            return self.eval(base) if base is not None else D0      # pair.first / .second: the element
        if base is not None and base.get("k") == "CXXThisExpr":
            key = ("f", owner, n["member"])
            if key in self.st:
                return self.st[key]
        return self.M.field_value(owner, n["member"], n.get("t"))

    # ---------------------------------------------------------------- calls
    def call(self, n, effects):
        k = n.get("k")
        args = call_args(n)
        name = plain(n)
        last = name.split("::")[-1]
        qn = stripped(n.get("callee") or "")
        M = self.M
        if effects and qn in M.internal and qn not in M.transforms:
            self._internal(n, qn, args)
        if k in ("CXXConstructExpr", "CXXTemporaryObjectExpr"):
            g = self.fx.functions.get(n.get("calleeKey") or "")
            if g is not None and g.body is not None and M.in_scope(g) and effects:
                avals = [self.eval(args[i]) if i < len(args) and is_num_t(p.get("t")) else None
                         for i, p in enumerate(g.params)]
                M.activate(g, avals)
            if len(args) == 1 and (is_num_t(args[0].get("t")) or n.get("copyOrMove")):
                return self.eval(args[0])
            if not is_num_t(n.get("t")):
                return D0
            return Z
        if k == "CXXOperatorCallExpr":
            op = n.get("op")
            if op in ("()", "[]") and args and not is_num_t(args[0].get("t")) \
                    and not stripped(args[0].get("t") or "").replace("const ", "").startswith("std::"):
                # a function object (lambda, comparator): an ordinary call of its operator()
                g = self.fx.functions.get(n.get("calleeKey") or "")
                if g is not None and g.body is not None and (is_num_t(n.get("t")) or M.in_scope(g)):
                    avals = [self.eval(args[i + 1]) if i + 1 < len(args) and is_num_t(p.get("t")) else None
                             for i, p in enumerate(g.params)]
                    ret, _o = M.activate(g, avals)
                    if is_num_t(n.get("t")):
                        return ret if ret is not None else U("%s returns no value" % g.short)
                    return D0
                if is_num_t(n.get("t")):
                    return U("call of a function object (%s) without a body in the fact base" % short(qn))
                return D0
            if op in ("()", "[]", "*", "->") and args:
                if op == "*" and len(args) == 2:
                    return mul(self.eval(args[0]), self.eval(args[1]))
                return self.eval(args[0])
            if op in ("<<", ">>"):
                return D0
            if op == "=" and len(args) == 2:
                return self.eval(args[1])
            if len(args) == 2 and op in ("*", "*="):
                return mul(self.eval(args[0]), self.eval(args[1]))
            if len(args) == 2 and op in ("/", "/="):
                return self.div(self.eval(args[0]), self.eval(args[1]))
            if len(args) == 2 and op in ("+", "-", "+=", "-="):
                if is_num_t(args[0].get("t")) and is_num_t(args[1].get("t")):
                    return self.same(self.eval(args[0]), self.eval(args[1]), n, "sum/difference")
                return self.eval(args[0])
            if len(args) == 1 and op in ("-", "+", "++", "--"):
                return self.eval(args[0])
            if op in ("<", ">", "<=", ">=", "==", "!=", "!", "&&", "||"):
                return D0
            if not is_num_t(n.get("t")):
                return D0
            return U("operator%s of %s is not modelled" % (op, short(qn)))
        # ---- mathematics
        if last in MATH_KEEP and len(args) == 1:
            return self.eval(args[0])
        if last in MATH_SQRT and len(args) == 1:
            return scale(self.eval(args[0]), Fraction(1, 2))
        if last in ("pow", "powf", "powl") and len(args) == 2:
            e = unwrap(args[1])
            neg = False
            while e is not None and e.get("k") == "UnaryOperator" and e.get("op") == "-":
                neg = not neg
                e = unwrap(e["c"][0])
            if e is not None and e.get("k") in ("IntegerLiteral", "FloatingLiteral"):
                f = Fraction(str(e.get("v")))
                return scale(self.eval(args[0]), -f if neg else f)
            base = self.eval(args[0])
            self.need0(base, n, "pow with a variable exponent")
            self.need0(self.eval(args[1]), n, "the exponent of pow")
            return D0 if base is None or base[0] in ("d", "z") else base
        if last in MATH_DIMLESS and len(args) == 1:
            self.need0(self.eval(args[0]), n, last)
            return D0
        if last in MATH_ATAN2 and len(args) == 2:
            self.same(self.eval(args[0]), self.eval(args[1]), n, "atan2 arguments")
            return D0
        if last in MATH_SAME and len(args) == 2 and (name.startswith(("std::", "f")) or name == last):
            return self.same(self.eval(args[0]), self.eval(args[1]), n, "%s arguments" % last)
        if last in MATH_BOOL:
            return D0
        if last == "swap" and len(args) == 2 and k == "CallExpr":
            if effects:
                a, b = self.eval(args[0]), self.eval(args[1])
                self.assign(n, args[0], b)
                self.assign(n, args[1], a)
            return D0
        # ---- containers of numbers
        if k == "CXXMemberCallExpr" and qn.startswith("std::"):
            obj = F.call_object(n)
            if last in CONTAINER_ADD and obj is not None:
                if effects:
                    for a in args:
                        if is_num_t(a.get("t")):
                            lv = self.lvalue(obj)
                            if lv is not None:
                                self.assign(n, _weak(obj), self.eval(a))
                return D0
            if is_num_t(n.get("t")) and obj is not None:
                return self.eval(obj)           # front(), back(), at(), operator[] ...
            return D0
        if qn.startswith("std::") and k == "CallExpr":
            if last in ("get",) and args:
                return self.eval(args[0])
            if not is_num_t(n.get("t")):
                return D0
            return U("std function %s is not modelled" % name)
        # ---- members of the matrix / vector classes: the object's degree (begin(), operator(), trans ...)
        if k == "CXXMemberCallExpr":
            obj = F.call_object(n)
            cc0 = stripped(n.get("calleeClass") or "")
            if obj is not None and is_num_t(obj.get("t")) and cc0.split("::")[-1] in MATVEC_CLASSES:
                return self.eval(obj) if is_num_t(n.get("t")) else D0
        # ---- in-place transforms (tabled)
        tr = M.transforms.get(qn)
        if tr is not None:
            if effects:
                i = tr["arg"]
                if i < len(args):
                    v = self.eval(args[i])
                    if tr["kind"] == "sqrt":
                        nv = scale(v, Fraction(1, 2))
                    elif tr["kind"] == "divide-by":
                        nv = self.div(v, self.eval(args[tr["by"]]))
                    else:
                        raise AnalysisBroken("R-HOM: unknown in-place transform kind %s" % tr["kind"])
                    self._internal(n, qn, args)
                    self.assign(n, args[i], nv)
            return D0
        # ---- tabled sources
        if qn in M.src:
            if qn in M.src_args0:
                for a in args:
                    if is_float_t(a.get("t")):
                        self.need0(self.eval(a), n, short(qn))
            return M.src[qn]
        # ---- callee with a body
        g = self.fx.functions.get(n.get("calleeKey") or "")
        needs_val = is_num_t(n.get("t"))
        pts = [p.get("t", "") for p in g.params] if g is not None else (lin.param_types(self.fx, n) or [])
        outs = [i for i, t in enumerate(pts) if lin._mutable_ref(t) and is_num_t(t) and i < len(args)]
        cc = stripped(n.get("calleeClass") or "")
        if g is None or g.body is None:
            if cc in M.cls_default and needs_val:
                return M.cls_default[cc]
            if needs_val:
                for b in (self.fx.bases_of(cc) if cc in self.fx.classes else ()):
                    if b in M.cls_default:
                        return M.cls_default[b]
            if effects:
                for i in outs:
                    self.assign(n, args[i], U("%s (no body in the analysed sources) writes this argument" % short(qn)))
            if needs_val:
                return U("%s has no body in the analysed sources and no tabled degree" % short(qn))
            return D0
        in_scope = M.in_scope(g)
        if not (needs_val or outs or in_scope):
            return D0
        if cc in M.cls_default and not outs and not in_scope:
            return M.cls_default[cc] if needs_val else D0
        avals = []
        for i, p in enumerate(g.params):
            if i < len(args) and is_num_t(p.get("t")):
                avals.append(self.eval(args[i]))
            else:
                avals.append(None)
        ret, o = M.activate(g, avals)
        if effects:
            for i in outs:
                if i in o:
                    self.assign(n, args[i], o[i])
            if self.record and in_scope or self.record and g is not None:
                ps = M.psink_params(g)
                for i in sorted(ps):
                    if i >= len(args) or not is_float_t(args[i].get("t")):
                        continue
                    a = unwrap(args[i])
                    if a.get("k") == "DeclRefExpr" and a["ref"].get("dk") == "parm" \
                            and a["ref"].get("decl") in self.pidx \
                            and self.pidx[a["ref"]["decl"]] in M.psink_params(self.fn):
                        continue
                    tag = None
                    for b in args:
                        bb = unwrap(b)
                        if bb.get("k") == "StringLiteral":
                            tag = "<%s>" % bb.get("v")
                            break
                    M.sinks.append((self.fn, n, args[i], self.eval(args[i]), tag))
        if needs_val:
            if ret is None:
                return U("%s returns no value on any analysed path" % g.short)
            if M.in_scope(self.fn) and M.is_model_cls(g.cls) and ret[0] == "d":
                # exponent of the a priori deviation: only what the writer itself multiplies in counts
                ret = ("d", ret[1], ret[2], Fraction(0) if qn not in M.T["apriori_accessors"] else ret[3])
            return ret
        return D0

    def _internal(self, n, qn, args):
        spec = self.M.internal.get(qn)
        if spec is None or not self.record:
            return
        i = spec["arg"]
        if i < len(args):
            self.M.isinks.append((self.fn, n, spec["name"], self.eval(args[i]), parse_value(spec["degree"])))


def _merge_disjuncts(lst, limit=8):
    """disjuncts with equal variable states are one (facts: what both guarantee); too many: one joined state"""
    out = []
    for facts, vs in lst:
        for i, (f2, v2) in enumerate(out):
            if v2 == vs:
                out[i] = (f2 & facts, v2)
                break
        else:
            out.append((facts, vs))
    # equal facts: join the variables
    byf = {}
    for facts, vs in out:
        if facts in byf:
            old = byf[facts]
            for kx, v in vs.items():
                old[kx] = join(old.get(kx), v)
        else:
            byf[facts] = dict(vs)
    out = list(byf.items())
    if len(out) > limit:
        facts = frozenset.intersection(*[f for f, _ in out])
        vs = {}
        for _, v2 in out:
            for kx, v in v2.items():
                vs[kx] = join(vs.get(kx), v)
        out = [(facts, vs)]
    return out


def _same_disjuncts(a, b):
    if len(a) != len(b):
        return False
    return {(f, frozenset(v.items())) for f, v in a} == {(f, frozenset(v.items())) for f, v in b}


def _weak(obj):
    """wrap an object expression so that assign() treats the write as an element (weak) update"""
    return {"k": "ArraySubscriptExpr", "c": [obj, {"k": "IntegerLiteral", "v": 0}], "id": -1}


_TAG_RES = [re.compile(r"<([A-Za-z][\w:-]*)>\s*$"),
            re.compile(r"([A-Za-z][\w:-]*)\s*=\s*['\"]?\s*$"),
            re.compile(r"([A-Za-z][\w:-]*)\s*\(\s*$")]


def tag_of(lit):
    for rx in _TAG_RES:
        m = rx.search(lit)
        if m:
            return "<%s>" % m.group(1)
    return None


# =========================================================================== running the model

def roots(M):
    fx = M.fx
    out = []
    seen_files = set()
    for fn in sorted(fx.functions.values(), key=lambda f: getattr(f, "ukey", f.key)):
        if M.in_scope(fn) and fn.body is not None:
            seen_files.add(fn.file)
            if not any(is_num_t(p.get("t")) for p in fn.params):
                out.append(fn)
    for f, spec in M.T["writer_files"].items():
        if f not in seen_files:
            raise AnalysisBroken("R-HOM: no function of writer file %s in the fact base" % f)
        for a in spec.get("anchors", []):
            fx.fn(a)
    cls = M.T["model_class"]
    for name in M.T["model_members"]:
        fs = [f for f in fx.fns(cls + "::" + name) if f.body is not None]
        if not fs:
            raise AnalysisBroken("R-HOM: modelled member %s::%s not found" % (cls, name))
        for f in fs:
            if not any(is_num_t(p.get("t")) and not lin._mutable_ref(p.get("t", "")) for p in f.params):
                out.append(f)
    return out


def external_contexts(M):
    """Writer functions with numeric value parameters that no modelled function calls (entry points of the
    library such as TestLinearization(IS, out, max_pol, max_dif)) are analysed in the contexts of their call
    sites elsewhere in the build; the arguments there are evaluated without flow state (constants, default
    arguments, locals with an initialiser)."""
    fx = M.fx
    todo = {}
    done = {f.key for f in M.analysed}
    for fn in fx.functions.values():
        if M.in_scope(fn) and fn.body is not None and fn.key not in done:
            todo[fn.key] = fn
    if not todo:
        return
    found = set()
    for caller in fx.functions.values():
        if caller.body is None:
            continue
        for n in caller.calls():
            g = todo.get(n.get("calleeKey") or "")
            if g is None:
                continue
            act = Act(M, caller, [])
            args = call_args(n)
            avals = [act.eval(args[i]) if i < len(args) and is_num_t(p.get("t")) else None
                     for i, p in enumerate(g.params)]
            M.activate(g, avals)
            found.add(g.key)
    for k, fn in sorted(todo.items()):
        if k not in found:
            M.unreached.append(fn)


_RUN = {}


def run_model(ctx):
    key = id(ctx.facts)
    if key in _RUN and _RUN[key][0] is ctx.facts:
        return _RUN[key][1]
    prev = {}
    M = None
    for rnd in range(8):
        M = Model(ctx)
        M.fieldval = prev
        for fn in roots(M):
            M.activate(fn, [None] * len(fn.params))
        external_contexts(M)
        if M.fieldnew == prev:
            break
        prev = M.fieldnew
    else:
        raise AnalysisBroken("R-HOM: the degrees of the writer-class fields did not stabilise")
    _RUN[key] = (ctx.facts, M)
    return M


def demanded(M, atoms):
    sig = ",".join(sorted(atoms))
    spec = M.T["signature_degrees"].get(sig)
    if spec is None:
        return D0, None
    return parse_value(spec["degree"]), spec.get("reason")


def rule_hom(ctx):
    M = run_model(ctx)
    T = M.T
    for fn in M.analysed:
        ctx.saw(fn)
    gaps = T.get("gaps", {})
    used_gaps = set()
    undecided = []          # raised as AnalysisBroken at the end unless a definite violation explains them
    # ---------------------------------------------------------------- writer sinks
    groups = {}
    for fn, node, operand, val, tag in M.sinks:
        if not M.in_scope(fn):
            continue
        atoms = M.atoms(fn, operand)
        if not atoms and (val == Z or (val is not None and val[0] == "d" and val[1] == 0)):
            continue                        # a constant / a value without any source
        label = tag or "{%s}" % ",".join(sorted(atoms))
        key = "%s:%s" % (fkey(fn), label)
        groups.setdefault(key, []).append((fn, node, operand, val, atoms))
    n_sink = 0
    n_nonzero = 0
    for key in sorted(groups):
        msgs = []
        where, fname = "", ""
        unknown = []
        for fn, node, operand, val, atoms in groups[key]:
            dem, _ = demanded(M, atoms)
            fname = fkey(fn)
            if not where:
                where = fn.where(node)
            if val is None:
                val = U("no value reaches the sink")
            if val[0] in ("u", "c"):
                unknown.append((fn, node, val))
                continue
            if val[0] == "x":
                msgs.append("%s is %s" % (F.expr_text(operand), vstr(val)))
                where = fn.where(node)
                continue
            if val[0] == "z":
                continue
            if val[1] != dem[1]:
                msgs.append("%s has %s in the a priori reference deviation, the property demands degree %s "
                            "(sources: %s)" % (F.expr_text(operand), vstr(val), dem[1], ", ".join(sorted(atoms))))
                where = fn.where(node)
            elif dem[1] == 0:
                if val[3] is None:
                    unknown.append((fn, node, U("the exponent of the a priori reference deviation in %s cannot be "
                                                "determined (sum of terms that use it differently)"
                                                % F.expr_text(operand))))
                elif val[3] > 0:
                    msgs.append("%s is scaled by the a priori reference deviation itself (apriori_m_0()^%s): a "
                                "dimensionless result must take its scale from m_0(), the deviation selected by "
                                "the reference-deviation type" % (F.expr_text(operand), val[3]))
                    where = fn.where(node)
        if unknown and not msgs:
            if key in gaps:
                used_gaps.add(key)
                ctx.note("R-HOM gap (tabled): %s - %s" % (key, gaps[key]))
                continue
            fn, node, val = unknown[0]
            undecided.append((fkey(fn), "the degree of sink %s at %s cannot be inferred: %s"
                              % (key, fn.where(node), vstr(val))))
            continue
        n_sink += 1
        if any(demanded(M, a)[0][1] != 0 for _, _, _, _, a in groups[key]):
            n_nonzero += 1
        ctx.report(RULE, key, not msgs, where, fname, msg="; ".join(sorted(set(msgs))),
                   detail={"sinks": len(groups[key])})
    fl = T["floors"]
    ctx.floor(RULE, fl["writer_sinks"], n_sink, "writer sink instances")
    ctx.floor(RULE, fl["nonzero_sinks"], n_nonzero, "sinks printing a quantity of non-zero degree")
    # ---------------------------------------------------------------- homogeneity of sums / comparisons
    by_fn = {}
    for fn, node, msg in M.issues:
        by_fn.setdefault(fkey(fn), []).append((fn, node, msg))
    n_h = 0
    n_checks = 0
    per = {}
    for fn in sorted(M.analysed, key=lambda f: f.key):
        cnt = M.checked.get(fn.key, 0)
        if cnt:
            e = per.setdefault(fkey(fn), [fn, 0])
            e[1] += cnt
    for name in sorted(per):
        fn, cnt = per[name]
        n_h += 1
        n_checks += cnt
        iss = by_fn.get(name, [])
        key = "%s:homogeneous" % name
        ctx.report(RULE, key, not iss, iss[0][0].where(iss[0][1]) if iss else fn.where(), name,
                   msg="; ".join(sorted({m for _, _, m in iss})), detail={"checked": cnt})
    ctx.floor(RULE, fl["homogeneous_functions"], n_h, "functions with checked sums/comparisons")
    ctx.floor(RULE, fl["homogeneity_checks"], n_checks, "sums/comparisons/function arguments with two definite degrees")
    # ---------------------------------------------------------------- statistics accessors of LocalNetwork
    cls = T["model_class"]
    n_acc = 0
    for name, spec in sorted(T["accessors"].items()):
        fn = ctx.facts.fn(cls + "::" + name)
        dem = parse_value(spec["degree"])
        want_m = spec.get("m0_exponent")
        vals = []
        if "out" in spec:
            for pname, pspec in spec["out"].items():
                idx = [i for i, p in enumerate(fn.params) if p.get("name") == pname]
                if not idx:
                    raise AnalysisBroken("R-HOM: %s has no parameter %s" % (fn.short, pname))
                vals.append(("%s:out:%s" % (fkey(fn), pname), M.outs.get((fn.key, idx[0])),
                             parse_value(pspec["degree"]), pspec.get("m0_exponent")))
        else:
            vals.append(("%s:return" % fkey(fn), M.rets.get(fn.key), dem, want_m))
        for key, alts, dm, wm in vals:
            alts = alts or {None}
            msgs = []
            unk = []
            for val in sorted(alts, key=str):
                if val is None or val[0] in ("u", "c"):
                    unk.append(val)
                elif val[0] == "x":
                    msgs.append(vstr(val))
                elif val[0] == "d":
                    if val[1] != dm[1]:
                        msgs.append("%s, the property demands degree %s" % (vstr(val), dm[1]))
                    elif wm is not None:
                        if val[2] is None:
                            unk.append(U("exponent of m_0() is not determined"))
                        elif val[2] != Fraction(str(wm)):
                            msgs.append("the actual reference deviation m_0() enters with exponent %s, "
                                        "expected %s (%s)" % (val[2], wm, vstr(val)))
            if unk and not msgs:
                if key in gaps:
                    used_gaps.add(key)
                    continue
                undecided.append((fkey(fn), "the degree of %s cannot be inferred: %s" % (key, vstr(unk[0]))))
                continue
            n_acc += 1
            ctx.report(RULE, key, not msgs, fn.where(), fkey(fn), msg="; ".join(msgs),
                       detail={"alternatives": len(alts)})
    ctx.floor(RULE, fl["accessors"], n_acc, "statistics accessors")
    # ---------------------------------------------------------------- writes of the tabled fields
    fw = {}
    exempt = T.get("field_write_exempt", {})
    for fn, node, owner, member, v in M.fwrites:
        k = "%s::%s" % (owner, member)
        if k not in M.fields:
            continue
        fw.setdefault(k, []).append((fn, node, v))
    n_fw = 0
    for k in sorted(T["checked_fields"]):
        ws = fw.get(k, [])
        if not ws:
            raise AnalysisBroken("R-HOM: no write of the tabled field %s found in the modelled members" % k)
        dem = M.fields[k]
        msgs = []
        where = ""
        for fn, node, v in ws:
            if v is None or v[0] == "z":
                continue
            ex = exempt.get("%s@%s" % (k, fkey(fn)))
            if v[0] in ("u", "c"):
                gk = "%s:write:%s" % (fkey(fn), k.split("::")[-1])
                if gk in gaps:
                    used_gaps.add(gk)
                    continue
                undecided.append((fkey(fn), "value written to %s in %s cannot be inferred: %s"
                                  % (k, fn.where(node), vstr(v))))
                continue
            if v[0] == "x":
                msgs.append(vstr(v))
                where = fn.where(node)
            elif v[1] != dem[1]:
                if ex is not None and Fraction(str(ex["degree"])) == v[1]:
                    continue
                msgs.append("%s writes a value of %s, the field holds degree %s" % (fkey(fn), vstr(v), dem[1]))
                where = fn.where(node)
            else:
                wm = T["checked_fields"][k].get("m0_exponent")
                if wm is not None and v[2] is not None and v[2] != Fraction(str(wm)):
                    msgs.append("%s: m_0() enters with exponent %s, expected %s" % (fkey(fn), v[2], wm))
                    where = fn.where(node)
        n_fw += 1
        ctx.report(RULE, "%s:field-writes" % short(k), not msgs, where or ws[0][0].where(ws[0][1]),
                   fkey(ws[0][0]), msg="; ".join(sorted(set(msgs))), detail={"writes": len(ws)})
    ctx.floor(RULE, fl["checked_fields"], n_fw, "tabled fields with checked writes")
    # ---------------------------------------------------------------- cofactor matrices handed to the solver
    gi = {}
    for fn, node, name, v, dem in M.isinks:
        gi.setdefault("%s:%s" % (fkey(fn), name), []).append((fn, node, v, dem))
    for key in sorted(gi):
        msgs = []
        where = ""
        for fn, node, v, dem in gi[key]:
            where = where or fn.where(node)
            if v is None or v[0] in ("u", "c"):
                undecided.append((fkey(fn), "%s at %s cannot be inferred: %s" % (key, fn.where(node), vstr(v))))
                continue
            if v[0] == "x" or (v[0] == "d" and v[1] != dem[1]):
                msgs.append("the matrix has %s, the solver expects degree %s (covariances divided by the "
                            "square of the a priori reference deviation)" % (vstr(v), dem[1]))
                where = fn.where(node)
        ctx.report(RULE, key, not msgs, where, key.split(":")[0], msg="; ".join(sorted(set(msgs))))
    ctx.floor(RULE, fl["internal_sinks"], len(gi), "cofactor matrices handed to the solver")
    for fn in M.unreached:
        ctx.note("R-HOM: %s takes numeric parameters and has no call site in the analysed build: its sinks are "
                 "not checked" % fkey(fn))
    stale = [g for g in gaps if g not in used_gaps]
    for g in stale:
        ctx.note("R-HOM: tabled gap %s is no longer needed" % g)
    if undecided:
        # an instance that cannot be decided is exit 2 - unless a definite violation in the same function or in
        # the modelled LocalNetwork members (whose values flow into every writer) is reported anyway
        badkeys = [i.key[len(RULE) + 1:] for i in ctx.instances if (not i.ok) and i.rule == RULE]
        model = short(cls) + "::"
        left = [(f, u) for f, u in undecided
                if not any(k.startswith(f + ":") or k.startswith(model) for k in badkeys)]
        if left:
            raise AnalysisBroken("R-HOM: %s%s" % (left[0][1], "" if len(left) == 1 else
                                                  " (and %d more)" % (len(left) - 1)))
        for f, u in undecided:
            ctx.note("R-HOM: not decided next to a definite violation: " + u)
    return M


# =========================================================================== selector clause

def _pred_of(M, fn, cond, depth=0):
    """(predicate name, negated) if the condition expression is a call of one of the type predicates,
    possibly negated or held in a local initialised once from it; else None"""
    preds = M.T["selector"]["predicates"]
    n = unwrap(cond)
    neg = False
    for _ in range(8):
        if n is None:
            return None
        if n.get("k") == "UnaryOperator" and n.get("op") == "!":
            neg = not neg
            n = unwrap(n["c"][0])
            continue
        break
    if n is None:
        return None
    if is_call(n):
        q = stripped(n.get("callee") or "")
        if q in preds:
            return (q, neg)
        return None
    if n.get("k") == "DeclRefExpr" and n["ref"].get("dk") == "local" and depth < 3:
        defs = M.local_defs(fn).get(n["ref"].get("decl"), [])
        if len(defs) == 1 and not isinstance(defs[0], tuple):
            r = _pred_of(M, fn, defs[0], depth + 1)
            if r is not None:
                return (r[0], r[1] != neg)
    if n.get("k") == "BinaryOperator" and n.get("op") in ("==", "!=") and len(n.get("c") or []) == 2:
        # typ_m_0_ == apriorni_  (the predicates' own bodies are not conditions of interest)
        return None
    return None


def polarity_at(M, fn, node):
    """set of reference-deviation types ('apriori' / 'aposteriori') under which node can execute, decided
    from the branch edges that every path from the entry to the node must take"""
    cfg = fn.cfg
    pos = cfg.block_of(node)
    types = {"apriori", "aposteriori"}
    if pos is None:
        return types
    target = pos[0]
    sel = M.T["selector"]["predicates"]
    for bid, blk in cfg.blocks.items():
        if blk.get("cond") is None:
            continue
        cn = fn.nodes.get(blk["cond"])
        p = _pred_of(M, fn, cn) if cn is not None else None
        if p is None:
            continue
        raw = list(blk.get("succ", []))
        if len(raw) != 2:
            continue
        if bid == target and cfg.pos.get(node.get("id"), (None, 0))[0] == bid:
            continue
        for idx, truth in ((0, True), (1, False)):
            other = raw[1 - idx]
            # does every path to target use edge idx of this block?  remove the other edge and this edge
            # separately: target must be unreachable without edge idx but reachable at all
            if raw[idx] is None or raw[idx] < 0:
                continue
            if not _reach_without(cfg, target, bid, raw[idx]):
                holds = truth != p[1]           # predicate value on this edge
                t = sel[p[0]]
                types &= {t} if holds else ({"apriori", "aposteriori"} - {t})
    return types


def _reach_without(cfg, target, bid, succ):
    """target reachable from the entry when the edge bid->succ is removed"""
    seen = set()
    stack = [cfg.entry]
    while stack:
        b = stack.pop()
        if b in seen:
            continue
        seen.add(b)
        if b == target:
            return True
        for s in cfg.succ.get(b, []):
            if b == bid and s == succ:
                # the same successor may be listed for both outcomes
                if cfg.blocks[b].get("succ", []).count(s) > 1:
                    stack.append(s)
                continue
            stack.append(s)
    return False


def rule_hom_selector(ctx):
    """The quantities that depend on the reference-deviation type are selected by the type predicates, with
    the right polarity, and both alternatives are handled."""
    M = run_model(ctx)
    fx = ctx.facts
    S = M.T["selector"]
    cls = M.T["model_class"]
    en = fx.enum(S["enum"])
    if len(en["enumerators"]) != 2:
        raise AnalysisBroken("R-HOM-SEL: %s no longer has exactly two alternatives" % S["enum"])
    for q in S["predicates"]:
        fx.fn(q)
    scope = [f for f in fx.functions.values() if f.body is not None and
             (M.in_scope(f) or (f.cls and stripped(f.cls) == cls))]
    # S1: distribution functions under the right polarity; S2: both alternatives in the same function
    n1 = 0
    n_fn = 0
    groups = {}
    for fn in sorted(scope, key=lambda f: getattr(f, "ukey", f.key)):
        groups.setdefault(fkey(fn), []).append(fn)       # instantiations of one template are one instance
    for name in sorted(groups):
        calls = {}
        for fn in groups[name]:
            for n in fn.walk():
                if n.get("k") == "CallExpr":
                    q = strip_targs(n.get("callee") or "")
                    if q in S["typed_callees"]:
                        calls.setdefault(q, []).append((fn, n))
        if not calls:
            continue
        for fn in groups[name]:
            ctx.saw(fn)
        fn0 = groups[name][0]
        n_fn += 1
        for q, ns in sorted(calls.items()):
            want = S["typed_callees"][q]
            bad = []
            for fn, n in ns:
                types = polarity_at(M, fn, n)
                if types != {want}:
                    bad.append((fn, n, types))
            n1 += 1
            ctx.report(RULE_SEL, "%s:%s-under-%s" % (name, q.split("::")[-1], want), not bad,
                       bad[0][0].where(bad[0][1]) if bad else ns[0][0].where(ns[0][1]), name,
                       msg="" if not bad else "%s is reached when the reference deviation type is %s; it belongs "
                       "to the %s reference deviation only" % (q.split("::")[-1],
                                                              " or ".join(sorted(bad[0][2])) or "never selected",
                                                              want))
        missing = [q for q in S["typed_callees"] if q not in calls]
        ctx.report(RULE_SEL, "%s:both-alternatives" % name, not missing, fn0.where(), name,
                   msg="" if not missing else "the function uses %s but never %s: one alternative of the "
                   "reference-deviation type is not handled" % (
                       ", ".join(sorted(c.split("::")[-1] for c in calls)),
                       ", ".join(c.split("::")[-1] for c in missing)))
    ctx.floor(RULE_SEL, S["floors"]["functions"], n_fn, "functions selecting a distribution by the type")
    ctx.floor(RULE_SEL, S["floors"]["call_sites"], n1, "distribution call groups")
    # S3: the selector m_0() returns the a priori value under apriori and the a posteriori one under aposteriori
    for q, spec in sorted(S["selectors"].items()):
        fn = fx.fn(q)
        ctx.saw(fn)
        rets = lin.return_stmts(fn)
        seen = {"apriori": [], "aposteriori": []}
        bad = []
        for r in rets:
            types = polarity_at(M, fn, r)
            atoms = M.atoms(fn, r["c"][0]) | _field_atoms(r["c"][0])
            if not atoms:
                continue                # constant (0 when there is no redundancy)
            for t in ("apriori", "aposteriori"):
                if atoms & set(spec[t]):
                    if types != {t}:
                        bad.append("the %s value (%s) is returned when the type is %s"
                                   % (t, ", ".join(sorted(atoms & set(spec[t]))), " or ".join(sorted(types))))
                    seen[t].append(r)
        for t in ("apriori", "aposteriori"):
            if not seen[t]:
                bad.append("no return statement yields the %s value (%s)" % (t, "/".join(spec[t])))
        ctx.report(RULE_SEL, "%s:selects-by-type" % fkey(fn), not bad, fn.where(), fkey(fn),
                   msg="; ".join(bad))
    # S4: vocabulary literals naming the type are written under the matching polarity
    n_lab = 0
    rx_post = re.compile(S["label_aposteriori"], re.I)
    rx_apr = re.compile(S["label_apriori"], re.I)
    for name in sorted(groups):
        hits = []
        for fn in groups[name]:
            for n in fn.walk():
                if n.get("k") != "StringLiteral":
                    continue
                v = n.get("v") or ""
                t = "aposteriori" if rx_post.search(v) else ("apriori" if rx_apr.search(v) else None)
                if t is None:
                    continue
                types = polarity_at(M, fn, n)
                if types == {"apriori", "aposteriori"}:
                    continue                # written unconditionally: a heading, not a selected label
                hits.append((fn, n, t, types))
        if not hits:
            continue
        for fn in groups[name]:
            ctx.saw(fn)
        n_lab += 1
        bad = [h for h in hits if h[3] != {h[2]}]
        ctx.report(RULE_SEL, "%s:type-labels" % name, not bad,
                   bad[0][0].where(bad[0][1]) if bad else hits[0][0].where(hits[0][1]), name,
                   msg="" if not bad else "the label %r is written when the reference deviation type is %s"
                   % (bad[0][1].get("v"), " or ".join(sorted(bad[0][3])) or "never selected"),
                   detail={"labels": len(hits)})
    ctx.floor(RULE_SEL, S["floors"]["label_functions"], n_lab, "functions writing a type label under a type predicate")
    # S5: a value written under a tag that names one of the two reference deviations is that deviation, not
    # the one selected by the type (m_0())
    allowed = {t: [frozenset(x) for x in v] for t, v in S["label_sources"].items()}
    lab = {}
    for fn, node, operand, val, tag in M.sinks:
        if not M.in_scope(fn) or not tag:
            continue
        t = "aposteriori" if rx_post.search(tag) else ("apriori" if rx_apr.search(tag) else None)
        if t is None:
            continue
        lab.setdefault("%s:%s:source" % (fkey(fn), tag), []).append((fn, node, t, frozenset(M.atoms(fn, operand))))
    for key in sorted(lab):
        bad = [(fn, node, t, at) for fn, node, t, at in lab[key] if at not in allowed[t]]
        fn, node = (bad[0][0], bad[0][1]) if bad else (lab[key][0][0], lab[key][0][1])
        ctx.report(RULE_SEL, key, not bad, fn.where(node), fkey(fn),
                   msg="" if not bad else "the value written under this name is built from {%s}; the %s reference "
                   "deviation is %s" % (", ".join(sorted(bad[0][3])), bad[0][2],
                                        " or ".join("{%s}" % ", ".join(sorted(a)) for a in allowed[bad[0][2]])))
    ctx.floor(RULE_SEL, S["floors"]["labelled_values"], len(lab), "values written under a name of a reference deviation")


def _field_atoms(expr):
    return {n["member"] for n in walk(expr) if n.get("k") == "MemberExpr" and n.get("mk") == "field"}
