"""R-LAZY: lazy-evaluation typestate.

For every class of tables/lazy.json that computes results on demand behind flags, an
abstract interpretation of the *flags only* (finite sets of constants per flag,
path-sensitive on branches that test a flag, inter-procedural through calls on `this`
with virtual calls resolved to the concrete class) decides

 L1  every read of a result field in a public method - directly or through helpers -
     happens in a state where the field's validity predicate over the flags holds
     (i.e. it is dominated by the guard that computes it, with the right polarity);
 L2  every public method that writes an input field leaves the object in a state where
     the dependent results are invalidated (the flag predicate of the input holds on
     every normal exit).

The roles (which flag guards which field) are slots filled from the code by reading it
and frozen in the table with reasons; nothing of gama is executed.
"""
import re

import engine
import facts as F
from facts import AnalysisBroken, strip_targs, short

RULE = "R-LAZY"
TOP = None  # unknown flag value


# --------------------------------------------------------------------------- predicates

_ATOM = re.compile(r"^\s*(\w+)\s*(==|!=|>=|<=|<|>)\s*(-?\w+)\s*$")


class Pred:
    """`A && B && ...` or `A && .. => C && ..` over atoms `flag op const`; evaluated on one
    valuation (dict flag -> value)."""

    def __init__(self, text, consts):
        self.text = text
        if "=>" in text:
            a, c = text.split("=>", 1)
            self.ante = self._conj(a, consts)
            self.cons = self._conj(c, consts)
        else:
            self.ante = []
            self.cons = self._conj(text, consts)

    def _conj(self, text, consts):
        atoms = []
        for part in text.split("&&"):
            m = _ATOM.match(part)
            if not m:
                raise AnalysisBroken("lazy table: cannot parse predicate %r" % self.text)
            flag, op, c = m.groups()
            if re.match(r"^-?\d+$", c):
                v = int(c)
            elif c in ("true", "false"):
                v = 1 if c == "true" else 0
            elif c in consts:
                v = consts[c]
            else:
                raise AnalysisBroken("lazy table: unknown constant %r in predicate %r" % (c, self.text))
            atoms.append((flag, op, v))
        return atoms

    @staticmethod
    def _cmp(a, op, b):
        if a is None or b is None:
            return False
        return {"==": a == b, "!=": a != b, ">=": a >= b, "<=": a <= b, "<": a < b, ">": a > b}[op]

    def flags(self):
        return {a[0] for a in self.ante + self.cons}

    def holds1(self, val):
        if self.ante and not all(self._cmp(val.get(f), op, v) for f, op, v in self.ante):
            return True
        return all(self._cmp(val.get(f), op, v) for f, op, v in self.cons)

    def holds(self, vals):
        """True iff the predicate holds for every valuation of the state."""
        return all(self.holds1(v) for v in vals)


# --------------------------------------------------------------------------- helpers

def _const_of(node, binding=None):
    if node is None:
        return None
    k = node.get("k")
    if k == "DeclRefExpr":
        r = node["ref"]
        if r.get("dk") == "enumconst":
            return r["v"]
        if binding and r.get("decl") in binding:
            return binding[r["decl"]]
        return None
    if k == "IntegerLiteral":
        return node.get("v")
    if k == "CXXBoolLiteralExpr":
        return 1 if node.get("v") else 0
    if k in ("CXXStaticCastExpr", "CStyleCastExpr", "CXXFunctionalCastExpr", "ImplicitCastExpr"):
        c = node.get("c") or []
        return _const_of(c[0], binding) if c else None
    if k == "CXXScalarValueInitExpr":
        return 0
    if k == "CXXConstructExpr" and not (node.get("c") or []) and node.get("t") in ("int", "bool"):
        return 0
    if k == "UnaryOperator" and node.get("op") in ("++", "--") and not node.get("postfix"):
        v = _const_of((node.get("c") or [None])[0], binding)
        if v is not None:
            return v + (1 if node["op"] == "++" else -1)
        return None
    if k == "BinaryOperator" and node.get("op") in ("+", "-") and len(node.get("c") or []) == 2:
        a, b = (_const_of(x, binding) for x in node["c"])
        if a is not None and b is not None:
            return a + b if node["op"] == "+" else a - b
        return None
    return None


def this_field(n):
    """(owner, member) if n is a field access on `this` (implicit or explicit), else None."""
    if n.get("k") == "MemberExpr" and n.get("mk") == "field":
        c = n.get("c") or []
        if c and c[0].get("k") == "CXXThisExpr":
            return strip_targs(n.get("owner", "")), n["member"]
    return None


class ClassModel:
    def __init__(self, fx, name, spec):
        self.fx = fx
        self.name = name if name.startswith("GNU_gama::") else "GNU_gama::" + name
        self.spec = spec
        fx.cls(self.name)
        self.hier = [self.name] + fx.bases_of(self.name)
        self.consts = {}
        for q, e in fx.enums.items():
            if any(q.startswith(h + "::") for h in self.hier):
                for en in e["enumerators"]:
                    self.consts[en["name"]] = en["v"]
        self.flag_names = []
        self.domain = {}
        for fname, fs in spec.get("flags", {}).items():
            dom = fs.get("domain")
            if dom == "bool":
                d = [0, 1]
            elif isinstance(dom, list):
                d = sorted({self.consts[x] if isinstance(x, str) else x for x in dom})
            else:
                raise AnalysisBroken("lazy table: flag %s.%s needs a domain" % (name, fname))
            self.flag_names.append(fname)
            self.domain[fname] = d
        self.valid = {f: Pred(p, self.consts) for f, p in spec.get("valid", {}).items()}
        self.inputs = {f: Pred(p, self.consts) for f, p in spec.get("inputs", {}).items()}
        self.invariant = [Pred(p, self.consts) for p in spec.get("invariant", [])]
        self.free = set(spec.get("free", {}).keys())
        self.member_exempt = {k: set(v) for k, v in spec.get("member_exempt_methods", {}).items()}
        self.member_input = {k: set(v) for k, v in spec.get("member_input_methods", {}).items()}
        self.fields = {}
        for h in self.hier:
            r = fx.classes.get(h)
            if r:
                for fl in r.get("fields", []):
                    self.fields.setdefault(fl["name"], h)
        for f in list(self.flag_names) + list(self.valid) + list(self.inputs):
            if f not in self.fields:
                raise AnalysisBroken("lazy table: field %s not found in %s or its bases" % (f, self.name))
        for pr in list(self.valid.values()) + list(self.inputs.values()) + self.invariant:
            for f in pr.flags():
                if f not in self.domain:
                    raise AnalysisBroken("lazy table: predicate %r uses unknown flag %s" % (pr.text, f))
        self.methods = []
        for h in self.hier:
            for fn in fx.methods_of(h):
                self.methods.append(fn)
        self._dw = {}

    def resolve(self, callee_key, callee_qn, qualified=False):
        """Final overrider in this concrete class of a method called on `this`
        (a qualified call Base::f() is bound statically)."""
        name = callee_qn.rsplit("::", 1)[-1]
        target = None
        for fn in self.fx.fns(callee_qn):
            if fn.key == callee_key:
                target = fn
                break
        if qualified:
            return target
        sig = None
        if target is not None:
            sig = tuple(p["t"] for p in target.params)
        else:
            m = re.search(r"\((.*)\)( const)?$", callee_key or "")
            if m:
                sig = tuple(x.strip() for x in m.group(1).split(",")) if m.group(1).strip() else ()
        for h in self.hier:
            for fn in self.fx.methods_of(h):
                if fn.name == name and (sig is None or tuple(p["t"] for p in fn.params) == sig):
                    return fn
        return target

    def all_valuations(self):
        vals = [()]
        for f in self.flag_names:
            vals = [v + (x,) for v in vals for x in self.domain[f]]
        return vals

    def as_dict(self, val):
        return dict(zip(self.flag_names, val))

    def direct_writes(self, fn):
        if fn.key not in self._dw:
            self._dw[fn.key] = direct_writes(fn, self.member_input, self.mutates)
        return self._dw[fn.key]

    def mutates(self, callee_key, callee_qn):
        """Does the (non-const) method identified by callee_key change its own object?  Decided from
        the callee's body when it is in the fact base (it assigns / deletes / mutating-calls one of its
        fields, directly or through calls on its `this`); unknown callees count as mutating."""
        memo = self.__dict__.setdefault("_mut", {})
        if callee_key in memo:
            return memo[callee_key]
        memo[callee_key] = True      # recursion / unknown: conservative
        target = None
        for fn in self.fx.fns(callee_qn):
            if fn.key == callee_key:
                target = fn
                break
        if target is None or target.body is None:
            return True
        res = False
        if direct_writes(target, {}, self.mutates):
            res = True
        else:
            for n in target.calls():
                if n.get("k") == "CXXMemberCallExpr":
                    obj = F.call_object(n)
                    if obj is not None and obj.get("k") == "CXXThisExpr" and n.get("calleeKey") \
                            and not n["calleeKey"].endswith(" const"):
                        if self.mutates(n["calleeKey"], strip_targs(n.get("callee") or "")):
                            res = True
                            break
        memo[callee_key] = res
        return res


def _lhs_root_field(n):
    """The `this` field at the root of an lvalue expression (x, x(i), x[i], x.y, *x ...)."""
    seen = 0
    while n is not None and seen < 20:
        seen += 1
        tf = this_field(n)
        if tf:
            return tf[1]
        k = n.get("k")
        c = n.get("c") or []
        if k == "MemberExpr" and c:
            n = c[0]
        elif k == "ArraySubscriptExpr" and c:
            n = c[0]
        elif k == "UnaryOperator" and n.get("op") in ("*", "++", "--") and c:
            n = c[0]
        elif k == "CXXOperatorCallExpr" and n.get("op") in ("()", "[]", "*") and len(c) > 1:
            n = c[1]
        elif k == "CXXMemberCallExpr" and c:
            n = F.call_object(n)
        elif k in ("CXXStaticCastExpr", "CStyleCastExpr", "ImplicitCastExpr") and c:
            n = c[0]
        else:
            return None
    return None


_ASSIGN_OPS = ("=", "+=", "-=", "*=", "/=", "%=", "|=", "&=", "^=", "<<=", ">>=")


def direct_writes(fn, member_input=None, mutates=None):
    """Fields of `this` written directly in fn: assignment targets (also through subscripts /
    call operators), ++/--, delete, receivers of non-const member calls (for member sub-objects
    listed in member_input only the listed input-changing methods count)."""
    member_input = member_input or {}
    out = set()
    for n in fn.walk():
        k = n.get("k")
        c = n.get("c") or []
        if k in ("BinaryOperator", "CompoundAssignOperator") and n.get("op") in _ASSIGN_OPS:
            f = _lhs_root_field(c[0])
            if f:
                out.add(f)
        elif k == "CXXOperatorCallExpr" and n.get("op") in _ASSIGN_OPS and len(c) > 1:
            f = _lhs_root_field(c[1])
            if f:
                out.add(f)
        elif k == "UnaryOperator" and n.get("op") in ("++", "--") and c:
            f = _lhs_root_field(c[0])
            if f:
                out.add(f)
        elif k == "CXXDeleteExpr" and c:
            f = _lhs_root_field(c[0])
            if f:
                out.add(f)
        elif k == "CXXMemberCallExpr":
            obj = F.call_object(n)
            if obj is not None:
                tf = this_field(obj)
                if tf:
                    key = n.get("calleeKey") or ""
                    mname = strip_targs(n.get("callee") or "").rsplit("::", 1)[-1]
                    if tf[1] in member_input:
                        if mname in member_input[tf[1]]:
                            out.add(tf[1])
                    elif not key.endswith(" const") and not (n.get("c") or [{}])[0].get("arrow"):
                        # a non-const call through a pointer member changes the pointee, not the member;
                        # a non-const accessor that changes nothing (Float& diagonal(i)) is a read
                        t = (n.get("t") or "").strip()
                        if mutates is None or mutates(key, strip_targs(n.get("callee") or "")):
                            out.add(tf[1])
                        elif t.endswith("*") and not t.startswith("const "):
                            out.add(tf[1])   # hands out a mutable pointer into the member (begin(), element())
        if F.is_call(n) and n.get("paramT"):
            # an argument bound to a non-const reference (or pointer) parameter is written
            args = F.call_args(n)
            if k == "CXXOperatorCallExpr" and n.get("memberOp"):
                args = args[1:]
            for a, pt in zip(args, n["paramT"]):
                pt = pt.strip()
                if pt.endswith("&") and not pt.startswith("const ") and not pt.endswith("&&"):
                    f = _lhs_root_field(a)
                    if f:
                        out.add(f)
    return out


# --------------------------------------------------------------------------- interpreter

class Interp:
    """Abstract interpretation of the flags: a state is a set of complete flag valuations."""

    def __init__(self, model):
        self.m = model
        self.fx = model.fx
        self.memo = {}
        self.active = set()
        self.visited_fns = set()
        self.called = {}     # memo key -> set of function qns invoked (transitively) in that run
        self.rec_hit = set()
        self.approx = {}
        self.throws = {}     # memo key -> set of (valuation, throw node id, fn key) reachable throws
        self.idx = {f: i for i, f in enumerate(model.flag_names)}

    def _set(self, val, flag, v):
        i = self.idx[flag]
        return val[:i] + (v,) + val[i + 1:]

    def assign(self, st, flag, v):
        return frozenset(self._set(x, flag, v) for x in st)

    def havoc(self, st, flag):
        return frozenset(self._set(x, flag, d) for x in st for d in self.m.domain[flag])

    def refine(self, st, cond, truth, binding):
        if cond is None:
            return st
        k = cond.get("k")
        c = cond.get("c") or []
        if k == "UnaryOperator" and cond.get("op") == "!" and c:
            return self.refine(st, c[0], not truth, binding)
        tf = this_field(cond)
        if tf and tf[1] in self.idx:
            i = self.idx[tf[1]]
            return frozenset(x for x in st if (x[i] != 0) == truth)
        if k == "CXXMemberCallExpr" and not F.call_args(cond):
            # a parameterless predicate on `this` whose body is a single `return <expr over flags>`
            obj = F.call_object(cond)
            if obj is not None and obj.get("k") == "CXXThisExpr" and cond.get("callee"):
                callee = self.m.resolve(cond.get("calleeKey"), strip_targs(cond["callee"]),
                                        bool((cond.get("c") or [{}])[0].get("qual")))
                if callee is not None and callee.body is not None and not self.m.direct_writes(callee):
                    rets = [x for x in callee.walk() if x.get("k") == "ReturnStmt"]
                    stmts = callee.body.get("c") or []
                    if len(rets) == 1 and len(stmts) == 1 and rets[0].get("c"):
                        return self.refine(st, rets[0]["c"][0], truth, {})
            return st
        if k == "BinaryOperator" and cond.get("op") in ("==", "!=", "<", "<=", ">", ">=") and len(c) == 2:
            op = cond["op"]
            l, r = c
            lf, rf = this_field(l), this_field(r)
            if lf and lf[1] in self.idx:
                v = _const_of(r, binding)
                if v is not None:
                    i = self.idx[lf[1]]
                    return frozenset(x for x in st if Pred._cmp(x[i], op, v) == truth)
            if rf and rf[1] in self.idx:
                v = _const_of(l, binding)
                if v is not None:
                    i = self.idx[rf[1]]
                    return frozenset(x for x in st if Pred._cmp(v, op, x[i]) == truth)
        return st

    def run(self, fn, val, binding=None):
        """Exit valuations and L1 violations of fn entered with one flag valuation."""
        binding = binding or {}
        key = (fn.key, val, tuple(sorted(binding.items())))
        if key in self.memo:
            return self.memo[key]
        if key in self.active:
            # recursion: least fixed point, start from "no normal exit yet"
            self.rec_hit.add(key)
            return (self.approx.get(key, frozenset()), [])
        self.active.add(key)
        self.called[key] = set()
        self.throws[key] = set()
        self.approx[key] = frozenset()
        try:
            rounds = 0
            while True:
                rounds += 1
                res = self._run(fn, val, binding, self.called[key], self.throws[key])
                if key not in self.rec_hit or res[0] == self.approx[key] or rounds > 64:
                    break
                self.approx[key] = res[0]
                # results memoised under the previous approximation are stale
                for k2 in [k for k in self.memo if k not in self.active]:
                    del self.memo[k2]
        finally:
            self.active.discard(key)
        self.memo[key] = res
        return res

    def calls_of(self, fn, val, binding=None):
        key = (fn.key, val, tuple(sorted((binding or {}).items())))
        return self.called.get(key, set())

    def throws_of(self, fn, val, binding=None):
        key = (fn.key, val, tuple(sorted((binding or {}).items())))
        return self.throws.get(key, set())

    def _run(self, fn, val, binding, called=None, thrown=None):
        if called is None:
            called = set()
        if thrown is None:
            thrown = set()
        self.visited_fns.add(fn.key)
        if fn.body is None or not fn.rec.get("cfg"):
            return (frozenset([val]), [])
        cfg = fn.cfg
        nodes = fn.nodes
        writes_here = self.m.direct_writes(fn)
        IN = {b: frozenset() for b in cfg.blocks}
        IN[cfg.entry] = frozenset([val])
        work = [cfg.entry]
        exit_state = frozenset()
        viol = {}
        guard = 0
        while work:
            guard += 1
            if guard > 50000:
                raise AnalysisBroken("R-LAZY: no fixpoint in %s" % fn.key)
            b = work.pop()
            st = IN[b]
            if not st:
                continue
            blk = cfg.blocks[b]
            throws = False
            for e in blk.get("el", []):
                if not isinstance(e, int):
                    continue
                n = nodes.get(e)
                if n is None:
                    continue
                k = n.get("k")
                if k == "CXXThrowExpr":
                    throws = True
                    for x in st:
                        thrown.add((x, n["id"], fn.key))
                    continue
                if k == "MemberExpr":
                    tf = this_field(n)
                    if tf and tf[1] in self.m.valid and tf[1] not in writes_here:
                        if not self._is_exempt_member_use(fn, n, tf[1]):
                            pred = self.m.valid[tf[1]]
                            badv = [x for x in st if not pred.holds1(self.m.as_dict(x))]
                            if badv:
                                viol.setdefault((fn.sig, tf[1]), {
                                    "field": tf[1], "in": fn.sig, "where": fn.where(n),
                                    "need": pred.text, "state": self.m.as_dict(badv[0])})
                    continue
                if k == "BinaryOperator" and n.get("op") == "=":
                    tf = this_field(n["c"][0])
                    if tf and tf[1] in self.idx:
                        v = _const_of(n["c"][1], binding)
                        if v is None or v not in self.m.domain[tf[1]]:
                            st = self.havoc(st, tf[1])
                        else:
                            st = self.assign(st, tf[1], v)
                    continue
                if k in ("CompoundAssignOperator", "UnaryOperator") and n.get("op") in ("+=", "-=", "++", "--"):
                    tf = this_field((n.get("c") or [{}])[0])
                    if tf and tf[1] in self.idx:
                        st = self.havoc(st, tf[1])
                    continue
                if k == "CXXMemberCallExpr":
                    obj = F.call_object(n)
                    if obj is not None and obj.get("k") == "CXXThisExpr" and n.get("callee"):
                        callee = self.m.resolve(n.get("calleeKey"), strip_targs(n["callee"]),
                                                bool((n.get("c") or [{}])[0].get("qual")))
                        if callee is not None and callee.body is not None:
                            bnd = {}
                            for p, a in zip(callee.params, F.call_args(n)):
                                v = _const_of(a, binding)
                                if v is not None:
                                    bnd[p["decl"]] = v
                            new = set()
                            called.add(callee.qn)
                            for x in st:
                                ex, sub = self.run(callee, x, bnd)
                                called |= self.calls_of(callee, x, bnd)
                                thrown |= self.throws_of(callee, x, bnd)
                                new |= ex
                                for sv in sub:
                                    viol.setdefault((sv["in"], sv["field"]), sv)
                            st = frozenset(new)
                            if not st:
                                throws = True
                    continue
            if throws or not st:
                continue
            if b == cfg.exit:
                exit_state |= st
                continue
            succs = cfg.succ.get(b, [])
            raw = list(blk.get("succ", []))
            outs = []
            tk = blk.get("termK")
            cond = nodes.get(blk.get("cond")) if blk.get("cond") is not None else None
            if tk == "SwitchStmt" and cond is not None:
                labels, default = {}, None
                for s in succs:
                    lab = nodes.get(cfg.blocks[s].get("label")) if cfg.blocks[s].get("label") else None
                    if lab is not None and lab.get("k") == "CaseStmt" and "v" in lab:
                        labels.setdefault(lab["v"], s)
                    else:
                        default = s
                tf = this_field(cond)
                cv = _const_of(cond, binding)
                if tf and tf[1] in self.idx:
                    i = self.idx[tf[1]]
                    part = {}
                    for x in st:
                        tgt = labels.get(x[i], default)
                        if tgt is not None:
                            part.setdefault(tgt, set()).add(x)
                    outs = [(t, frozenset(v)) for t, v in part.items()]
                elif cv is not None:
                    tgt = labels.get(cv, default)
                    outs = [(tgt, st)] if tgt is not None else []
                else:
                    outs = [(s, st) for s in succs]
            elif cond is not None and len(raw) == 2 and tk in (
                    "IfStmt", "WhileStmt", "ForStmt", "DoStmt", "ConditionalOperator", "BinaryOperator"):
                for idx2, truth in ((0, True), (1, False)):
                    s = raw[idx2]
                    if s is None or s < 0:
                        continue
                    s2 = self.refine(st, cond, truth, binding)
                    if s2:
                        outs.append((s, s2))
            else:
                outs = [(s, st) for s in succs]
            for s, s2 in outs:
                if not s2 <= IN[s]:
                    IN[s] = IN[s] | s2
                    work.append(s)
        return (exit_state, list(viol.values()))

    def _is_exempt_member_use(self, fn, node, field):
        """`field.method(...)` where the method is exempt for this member (self-guarding or pure config)."""
        ex = self.m.member_exempt.get(field)
        if not ex:
            return False
        p = fn.parent(node)
        if p is not None and p.get("k") == "MemberExpr" and p.get("mk") == "method" and p.get("member") in ex:
            return True
        return False


# --------------------------------------------------------------------------- rule

def entry_methods(model):
    """Public or virtual-override methods of the concrete class and its bases (most-derived wins)."""
    seen = set()
    out = []
    for fn in model.methods:
        r = fn.rec
        if r.get("ctor") or r.get("dtor") or fn.name.startswith("operator"):
            continue
        sig = (fn.name, tuple(p["t"] for p in fn.params))
        if sig in seen:
            continue
        seen.add(sig)
        if r.get("static"):
            continue
        if r.get("access") == 0 or (r.get("virtual") and r.get("overrides")):
            out.append(fn)
    return out


def _is_qualified(n):
    c = n.get("c") or []
    return bool(c and c[0].get("k") == "MemberExpr" and c[0].get("qual"))


def _callees_on_this(model, fn):
    for n in fn.calls():
        if n.get("k") == "CXXMemberCallExpr":
            obj = F.call_object(n)
            if obj is not None and obj.get("k") == "CXXThisExpr" and n.get("callee"):
                c = model.resolve(n.get("calleeKey"), strip_targs(n["callee"]), _is_qualified(n))
                if c is not None:
                    yield c


def _closure(model, fn, stop=()):
    """Functions reachable from fn through calls on `this`; functions in `stop` are not entered."""
    seen = {fn.key: fn}
    todo = [fn]
    while todo:
        g = todo.pop()
        if g.key in stop and g is not fn:
            continue
        for c in _callees_on_this(model, g):
            if c.key not in seen:
                seen[c.key] = c
                todo.append(c)
    return list(seen.values())


def check_class(ctx, cname, spec):
    fx = ctx.facts
    model = ClassModel(fx, cname, spec)
    interp = Interp(model)
    sname = short(model.name)
    n_obl = 0
    allv = model.all_valuations()
    inv_vals = [v for v in allv if all(p.holds1(model.as_dict(v)) for p in model.invariant)]
    if not inv_vals:
        raise AnalysisBroken("lazy table: invariant of %s is unsatisfiable" % cname)

    # ensure functions: from every invariant state, every normal exit satisfies some validity predicate
    # that is not already implied by the invariant alone
    ensure = set()
    nontrivial_valid = [p for p in set(model.valid.values())
                        if not all(p.holds1(model.as_dict(v)) for v in inv_vals)]
    for g in model.methods:
        if g.body is None or g.rec.get("ctor") or g.rec.get("dtor"):
            continue
        exits = set()
        for v in inv_vals:
            ex, _ = interp.run(g, v)
            exits |= ex
        if exits and any(all(p.holds1(model.as_dict(x)) for x in exits) for p in nontrivial_valid):
            ensure.add(g.key)

    exempt_entries = set(spec.get("entry_exempt", {}).keys())
    for m in entry_methods(model):
        ctx.saw(m)
        if m.name in exempt_entries:
            continue
        exits = set()
        viol = {}
        for v in inv_vals:
            ex, sub = interp.run(m, v)
            exits |= ex
            for sv in sub:
                viol.setdefault(sv["field"], sv)
        msig = "%s(%s)" % (short(strip_targs(m.qn)), ",".join(p["t"] for p in m.params))
        closure = _closure(model, m)
        # L1: one obligation per result field the entry method reads (transitively, outside its writers)
        reads = set()
        for g in closure:
            w = model.direct_writes(g)
            for n in g.walk():
                tf = this_field(n)
                if tf and tf[1] in model.valid and tf[1] not in w \
                        and not interp._is_exempt_member_use(g, n, tf[1]):
                    reads.add(tf[1])
        for f in sorted(reads):
            key = "L1:%s:%s:%s" % (sname, msig, f)
            n_obl += 1
            if f in viol:
                v = viol[f]
                ctx.bad(RULE, key, v["where"], m.short,
                        "result field '%s' is read in %s in a state where it is not valid (needs %s; "
                        "reachable flag state %s): the guard that computes it does not dominate the read"
                        % (f, v["in"], v["need"], v["state"]), v)
            else:
                ctx.ok(RULE, key, m.where(), m.short)
        # L2: writes of input fields outside ensure functions must leave the results invalidated
        wr = set()
        if m.key not in ensure:
            for g in _closure(model, m, stop=ensure):
                if g.key in ensure:
                    continue
                wr |= model.direct_writes(g)
        for f in sorted(wr & set(model.inputs)):
            pred = model.inputs[f]
            key = "L2:%s:%s:%s" % (sname, msig, f)
            n_obl += 1
            badx = [x for x in exits if not pred.holds1(model.as_dict(x))]
            if badx:
                ctx.bad(RULE, key, m.where(), m.short,
                        "writes input '%s' but an exit leaves the dependent results marked valid "
                        "(need %s; exit flag state %s)" % (f, pred.text, model.as_dict(badx[0])))
            else:
                ctx.ok(RULE, key, m.where(), m.short)
        # invariant is inductive over this method
        if model.invariant:
            key = "INV:%s:%s" % (sname, msig)
            n_obl += 1
            badx = [x for x in exits if not all(p.holds1(model.as_dict(x)) for p in model.invariant)]
            if badx:
                ctx.bad(RULE, key, m.where(), m.short,
                        "flag invariant %s broken on exit (state %s)"
                        % ([p.text for p in model.invariant], model.as_dict(badx[0])))
            else:
                ctx.ok(RULE, key, m.where(), m.short)
    for k in interp.visited_fns:
        ctx.analysed_functions.add(k)
    uncl = [f for f in model.fields if f not in model.domain and f not in model.valid
            and f not in model.inputs and f not in model.free]
    if uncl:
        ctx.note("R-LAZY %s: fields without a role in the table (no obligation): %s" % (sname, sorted(uncl)))
    return n_obl


def rule_lazy(ctx, classes=None):
    table = engine.load_table("lazy.json")
    total = 0
    for cname, spec in table["classes"].items():
        if classes is not None and cname not in classes:
            continue
        total += check_class(ctx, cname, spec)
    return total


def rule_lazy_solvers(ctx):
    n = rule_lazy(ctx, {"AdjEnvelope", "AdjCholDec", "AdjGSO", "AdjSVD", "SVD", "Homogenization"})
    ctx.floor(RULE, 60, n, "solver typestate obligations")


def rule_lazy_adj(ctx):
    n = rule_lazy(ctx, {"Adj"})
    ctx.floor(RULE, 5, n, "Adj typestate obligations")



def rule_lazy_cascade(ctx):
    """Invalidation cascades (table 'cascades'): for every enumerator k of the stage enum, the update
    function entered with that constant leaves the flags of stage k and of all later stages reset on
    every exit."""
    table = engine.load_table("lazy.json")
    fx = ctx.facts
    n = 0
    for cname, spec in table.get("cascades", {}).items():
        flags = spec["flags_in_stage_order"]
        model = ClassModel(fx, cname, {"flags": {f: {"domain": "bool"} for f in flags}})
        interp = Interp(model)
        fn = fx.fn(spec["function"], 1)
        ctx.saw(fn)
        enum = fx.enum(spec["enum"])
        ens = enum["enumerators"]
        if len(ens) != len(flags):
            raise AnalysisBroken("cascade %s: %d stage enumerators but %d flags in the table"
                                 % (cname, len(ens), len(flags)))
        allv = model.all_valuations()
        cases = [(e["name"], e["v"], k) for k, e in enumerate(ens)]
        for name, val, k in cases:
            exits = set()
            for v in allv:
                ex, _ = interp.run(fn, v, {fn.params[0]["decl"]: val})
                exits |= ex
            for f in flags[k:]:
                i = model.flag_names.index(f)
                stale = [x for x in exits if x[i] != 0]
                key = "CASCADE:%s:%s:%s" % (short(model.name), name, f)
                n += 1
                ctx.report(RULE, key, not stale and bool(exits), fn.where(), fn.short,
                           "" if not stale and exits else
                           "update(%s) can return with %s still set: results of that stage would not be recomputed"
                           % (name, f))
        # designated callers reach the cascade with the required stage constant on every path
        for caller, stage in spec.get("callers_must_reach", {}).items():
            cf = fx.fn(caller)
            ctx.saw(cf)
            want = [e["v"] for e in ens if e["name"] == stage][0]
            calls = [c for c in cf.calls() if strip_targs(c.get("callee") or "") == fn.qn
                     and _const_of((F.call_args(c) or [None])[0]) == want]
            ok = any(_postdominates_entry(cf, c) for c in calls)
            n += 1
            ctx.report(RULE, "CASCADE:%s:%s->update(%s)" % (short(model.name), short(cf.qn), stage), ok,
                       cf.where(), cf.short,
                       "" if ok else "%s must call update(%s) on every path" % (short(cf.qn), stage))
    ctx.floor(RULE, 10, n, "cascade obligations")


def _calls_unconditionally(model, fn, target):
    for c in fn.calls():
        if strip_targs(c.get("callee") or "") == target.qn and _postdominates_entry(fn, c):
            return True
    return False


def _postdominates_entry(fn, node):
    cfg = fn.cfg
    pb = cfg.block_of(node)
    if pb is None:
        return False
    return pb[0] in cfg.pdom.get(cfg.entry, set())




def rule_lazy_caches(ctx):
    """Cache invalidation (table 'caches'): every public method of the class that writes an input the
    cache content depends on - outside ensure functions - erases the cache index on every path
    (an erase call on that cache field post-dominates the method's entry, directly or inside a
    callee on `this` that is itself always called)."""
    table = engine.load_table("lazy.json")
    fx = ctx.facts
    n = 0
    for cname, caches in table.get("caches", {}).items():
        spec = table["classes"][cname]
        model = ClassModel(fx, cname, spec)
        interp = Interp(model)
        sname = short(model.name)
        allv = model.all_valuations()
        inv_vals = [v for v in allv if all(p.holds1(model.as_dict(v)) for p in model.invariant)]
        nontrivial_valid = [p for p in set(model.valid.values())
                            if not all(p.holds1(model.as_dict(v)) for v in inv_vals)]
        ensure = set()
        for g in model.methods:
            if g.body is None or g.rec.get("ctor") or g.rec.get("dtor"):
                continue
            exits = set()
            for v in inv_vals:
                ex, _ = interp.run(g, v)
                exits |= ex
            if exits and any(all(p.holds1(model.as_dict(x)) for x in exits) for p in nontrivial_valid):
                ensure.add(g.key)
        for cfield, cs in caches.items():
            if cfield.startswith("_"):
                continue
            if cfield not in model.fields:
                raise AnalysisBroken("lazy table: cache field %s not found in %s" % (cfield, cname))
            erase_name = cs["erase"].rsplit("::", 1)[-1]

            def is_target(expr, target):
                if expr is None:
                    return False
                if target[0] == "field":
                    tf = this_field(expr)
                    return bool(tf and tf[1] == target[1])
                return expr.get("k") == "DeclRefExpr" and expr["ref"].get("decl") == target[1]

            def erases_always(fn, target=("field", cfield), seen=None):
                """fn erases the cache (a field of this, or the object bound to one of fn's reference
                parameters) on every path: directly, in a callee on `this`, or in a helper that receives
                the cache by reference."""
                seen = seen or set()
                if (fn.key, target) in seen or fn.body is None:
                    return False
                seen.add((fn.key, target))
                for c in fn.calls():
                    if not _postdominates_entry(fn, c):
                        continue
                    cal = strip_targs(c.get("callee") or "")
                    obj = F.call_object(c) if c.get("k") == "CXXMemberCallExpr" else None
                    if obj is not None and is_target(obj, target) and cal.rsplit("::", 1)[-1] == erase_name:
                        return True
                    if not cal:
                        continue
                    callee = None
                    if obj is not None and obj.get("k") == "CXXThisExpr":
                        callee = model.resolve(c.get("calleeKey"), cal, _is_qualified(c))
                        if callee is not None and target[0] == "field" and erases_always(callee, target, seen):
                            return True
                    if callee is None:
                        for f in fx.fns(cal):
                            if f.key == c.get("calleeKey"):
                                callee = f
                                break
                    if callee is None or callee.body is None:
                        continue
                    args = F.call_args(c)
                    if c.get("k") == "CXXOperatorCallExpr" and c.get("memberOp"):
                        args = args[1:]
                    for a, prm in zip(args, callee.params):
                        pt = prm["t"].strip()
                        if is_target(a, target) and pt.endswith("&") and not pt.startswith("const "):
                            if erases_always(callee, ("param", prm["decl"]), seen):
                                return True
                return False

            for m in entry_methods(model):
                if m.key in ensure:
                    continue
                wr = set()
                for g in _closure(model, m, stop=ensure):
                    if g.key in ensure:
                        continue
                    wr |= model.direct_writes(g)
                hit = sorted(wr & set(cs["depends_on"]))
                if not hit:
                    continue
                ctx.saw(m)
                msig = "%s(%s)" % (short(strip_targs(m.qn)), ",".join(p["t"] for p in m.params))
                ok = erases_always(m)
                n += 1
                ctx.report(RULE, "CACHE:%s:%s:%s" % (sname, msig, cfield), ok, m.where(), m.short,
                           "" if ok else "writes %s, which the content of cache '%s' depends on, but does not erase "
                           "the cache on every path: a later query can be answered from a vector computed for the "
                           "previous input" % (hit, cfield))
    ctx.floor(RULE, 4, n, "cache invalidation obligations")



def _is_badreg_throw(fx, fnkey, node_id):
    fn = fx.functions.get(fnkey)
    if fn is None:
        for f in fx.functions.values():
            if f.key == fnkey:
                fn = f
                break
    if fn is None:
        return False
    n = fn.nodes.get(node_id)
    if n is None:
        return False
    return any(x.get("k") == "DeclRefExpr" and x["ref"].get("name") == "BadRegularization" for x in F.walk(n))


def rule_lazy_rethrow(ctx):
    """R-ERR on typestate: after a solver has signalled an unresolvable regularisation
    (throw Exception::BadRegularization), the queries the caller makes inside its handler
    (LocalNetwork::null_space: lindep(), defect()) must not throw the same exception again - i.e. started
    in any flag state in which the throw can happen, they reach no BadRegularization throw.
    (AdjCholDec / AdjGSO mark the system solved before throwing; AdjEnvelope::lindep needs only the
    factorisation; SVD marks itself decomposed before min_subset_x may throw.)"""
    table = engine.load_table("lazy.json")
    fx = ctx.facts
    n = 0
    for cname, rs in table.get("rethrow_free", {}).items():
        spec = table["classes"][cname]
        model = ClassModel(fx, cname, spec)
        interp = Interp(model)
        sname = short(model.name)
        allv = model.all_valuations()
        inv_vals = [v for v in allv if all(p.holds1(model.as_dict(v)) for p in model.invariant)]
        by_name = {}
        for m in model.methods:
            by_name.setdefault(m.name, m)
        # flag states at the moment of a BadRegularization throw, from any entry of the throwing entry points
        throw_states = set()
        for ename in rs["throwers"]:
            m = [x for x in entry_methods(model) + model.methods if x.name == ename and x.body is not None]
            if not m:
                raise AnalysisBroken("lazy table: thrower %s::%s not found" % (cname, ename))
            for v in inv_vals:
                interp.run(m[0], v)
                for (val, nid, fkey) in interp.throws_of(m[0], v):
                    if _is_badreg_throw(fx, fkey, nid):
                        throw_states.add(val)
        if not throw_states:
            # nothing can be thrown from here: whether this solver signals a bad regularisation at all is the
            # obligation of sib.rule_badreg_signalled; the rethrow obligation is empty
            ctx.note("R-ERR rethrow: no BadRegularization throw reachable from %s::%s" % (cname, rs["throwers"]))
            continue
        for qname in rs["queries"]:
            qs = [x for x in entry_methods(model) if x.name == qname]
            if not qs:
                raise AnalysisBroken("lazy table: query %s::%s not found" % (cname, qname))
            q = qs[0]
            ctx.saw(q)
            again = []
            for v in sorted(throw_states):
                interp.run(q, v)
                for (val, nid, fkey) in interp.throws_of(q, v):
                    if _is_badreg_throw(fx, fkey, nid):
                        again.append(model.as_dict(v))
                        break
            n += 1
            ctx.report("R-ERR", "rethrow:%s::%s" % (sname, qname), not again, q.where(), q.short,
                       "" if not again else "%s::%s() called after a BadRegularization throw (flags %s) throws it again: "
                       "LocalNetwork::null_space() queries the solver inside its catch handler and the second "
                       "exception escapes it" % (sname, qname, again[0]))
    ctx.floor("R-ERR", 4, n, "rethrow obligations")


def rule_lazy_preserve(ctx):
    """Independent inputs (table 'preserved'): reset(new system) must not change the regularisation
    subset, because callers may set it before or after reset (Adj::init_least_squares calls min_x()
    first, LocalNetwork::project_equations afterwards)."""
    table = engine.load_table("lazy.json")
    fx = ctx.facts
    n = 0
    for cname, pres in table.get("preserved", {}).items():
        spec = table["classes"][cname]
        model = ClassModel(fx, cname, spec)
        sname = short(model.name)
        for mname, fields in pres.items():
            if mname.startswith("_"):
                continue
            ms = [m for m in entry_methods(model) if m.name == mname]
            if not ms:
                raise AnalysisBroken("lazy table: %s::%s not found" % (cname, mname))
            for m in ms:
                ctx.saw(m)
                wr = set()
                for g in _closure(model, m):
                    wr |= model.direct_writes(g)
                for f in fields:
                    if f not in model.fields:
                        raise AnalysisBroken("lazy table: preserved field %s not in %s" % (f, cname))
                    n += 1
                    ok = f not in wr
                    ctx.report(RULE, "PRESERVE:%s::%s:%s" % (sname, mname, f), ok, m.where(), m.short,
                               "" if ok else "%s::%s() changes '%s': the regularisation subset chosen with min_x() before "
                               "the call is lost" % (sname, mname, f))
    ctx.floor(RULE, 6, n, "preserved-input obligations")


def rule_lazy_chain(ctx):
    """Stage chains (table 'chains'): every stage function, entered in a state where the previous
    stage is not established, invokes the previous stage function, and every normal exit leaves the
    state marking its own stage as done; consumers entered before their stage invoke the stage function."""
    table = engine.load_table("lazy.json")
    fx = ctx.facts
    n = 0
    for cname, spec in table.get("chains", {}).items():
        model = ClassModel(fx, cname, {"flags": spec["flags"]})
        interp = Interp(model)
        sname = short(model.name)
        stages = spec["stages"]     # [{fn, done: predicate over flag}]
        fns = [fx.fn(st["fn"], 0) for st in stages]
        preds = [Pred(st["done"], model.consts) for st in stages]
        allv = model.all_valuations()
        for k, (st, fn, pred) in enumerate(zip(stages, fns, preds)):
            ctx.saw(fn)
            exits = set()
            missing_prev = []
            no_exit = []
            for v in allv:
                ex, _ = interp.run(fn, v)
                exits |= ex
                if not ex and not pred.holds1(model.as_dict(v)):
                    no_exit.append(model.as_dict(v))
                if k > 0 and not preds[k - 1].holds1(model.as_dict(v)) and not pred.holds1(model.as_dict(v)):
                    if fns[k - 1].qn not in interp.calls_of(fn, v):
                        missing_prev.append(model.as_dict(v))
            n += 1
            badx = [x for x in exits if not pred.holds1(model.as_dict(x))]
            okd = bool(exits) and not badx and not no_exit
            ctx.report(RULE, "CHAIN:%s:%s:marks-done" % (sname, fn.name), okd,
                       fn.where(), fn.short,
                       "" if okd else ("%s entered in state %s has no normal exit (its stage is never marked done)"
                                       % (fn.name, no_exit[0]) if no_exit and not badx else
                                       "%s can return without establishing %s (exit state %s)"
                                       % (fn.name, pred.text, model.as_dict(badx[0]) if badx else "no normal exit")))
            if k > 0:
                n += 1
                ctx.report(RULE, "CHAIN:%s:%s:ensures-%s" % (sname, fn.name, fns[k - 1].name),
                           not missing_prev, fn.where(), fn.short,
                           "" if not missing_prev else "%s entered with %s does not run %s first"
                           % (fn.name, missing_prev[0], fns[k - 1].name))
        for cons in spec.get("consumers", []):
            cf = fx.fn(cons["fn"])
            ctx.saw(cf)
            k = [i for i, st in enumerate(stages) if st["fn"] == cons["needs_stage"]][0]
            missing = []
            for v in allv:
                interp.run(cf, v)
                if not preds[k].holds1(model.as_dict(v)) and fns[k].qn not in interp.calls_of(cf, v) \
                        and not _calls_unconditionally(model, cf, fns[k]):
                    missing.append(model.as_dict(v))
            n += 1
            ctx.report(RULE, "CHAIN:%s:%s:ensures-%s" % (sname, cf.name, fns[k].name), not missing,
                       cf.where(), cf.short,
                       "" if not missing else "%s entered with %s does not run %s first"
                       % (cf.name, missing[0], fns[k].name))
        for k in interp.visited_fns:
            ctx.analysed_functions.add(k)
    ctx.floor(RULE, 8, n, "stage-chain obligations")


def rule_lazy_latch(ctx):
    """No one-way latches in re-usable solver objects.  A boolean member that some non-constructor
    method sets to a constant, and that no non-constructor method ever sets to the opposite constant
    (or to a computed value), can never return to its initial value: once an object has been through
    the branch that sets it, every later use of the same object - after reset() with other data, after
    min_x() with another subset - still sees it.  The solver objects are re-used that way by
    LocalNetwork, so such a member makes answers depend on the history of calls.  Decided over all
    methods of the class, its bases and its derived classes (writes resolved through the member's
    owner record, not its name)."""
    table = engine.load_table("lazy.json")
    fx = ctx.facts
    roots = ["GNU_gama::" + c if not c.startswith("GNU_gama::") else c for c in table.get("latch_classes", [])]
    if not roots:
        raise AnalysisBroken("lazy table: latch_classes missing")
    family = set()
    for r in roots:
        fx.cls(r)
        family.add(r)
        family |= set(fx.bases_of(r))
        family |= set(fx.derived_from(r))
    family = {c for c in family if c.startswith("GNU_gama::")}
    bool_fields = {}
    for c in family:
        rec = fx.classes.get(c)
        if not rec:
            continue
        for f in rec.get("fields", []):
            if f.get("t") == "bool":
                bool_fields[(strip_targs(c), f["name"])] = {"ctor": set(), "set": {}, "where": None}
    n = 0
    for c in sorted(family):
        for m in fx.methods_of(c):
            if m.body is None and not m.rec.get("inits"):
                continue
            ctor = bool(m.rec.get("ctor"))
            for node in m.walk():
                if node.get("k") in ("BinaryOperator", "CompoundAssignOperator") and node.get("op") in ("=", "|=", "&=", "^="):
                    lhs = node["c"][0]
                    if lhs.get("k") != "MemberExpr" or not F.is_this_field(lhs):
                        continue
                    key = (strip_targs(lhs.get("owner") or ""), lhs.get("member"))
                    if key not in bool_fields:
                        continue
                    rhs = node["c"][1]
                    v = bool(rhs.get("v")) if (node["op"] == "=" and rhs.get("k") == "CXXBoolLiteralExpr") else "computed"
                    if ctor:
                        bool_fields[key]["ctor"].add(v)
                    else:
                        # a public method that records a constant unconditionally is configuration by the caller
                        # (set_verbose(), set_gons()), not state derived from the data: the caller can say what it asked for
                        if m.rec.get("access", 0) == 0 and v != "computed":
                            pb = m.cfg.block_of(node)
                            if pb is not None and pb[0] in m.cfg.pdom.get(m.cfg.entry, set()):
                                bool_fields[key]["config"] = True
                        bool_fields[key]["set"].setdefault(v, []).append(m)
                        ctx.saw(m)
                # a member handed out by non-const reference / address may be written elsewhere
                if node.get("k") == "UnaryOperator" and node.get("op") == "&" and node.get("c") and F.is_this_field(node["c"][0]):
                    key = (strip_targs(node["c"][0].get("owner") or ""), node["c"][0].get("member"))
                    if key in bool_fields and not ctor:
                        bool_fields[key]["set"].setdefault("computed", []).append(m)
    # a member nobody reads cannot influence an answer
    read = set()
    for c in sorted(family):
        for m in fx.methods_of(c):
            if m.body is None:
                continue
            lhs_ids = {node["c"][0]["id"] for node in m.walk()
                       if node.get("k") in ("BinaryOperator", "CompoundAssignOperator") and node.get("op") == "="
                       and node.get("c") and node["c"][0].get("k") == "MemberExpr"}
            for node in m.walk():
                if node.get("k") == "MemberExpr" and node.get("mk") == "field" and node["id"] not in lhs_ids and F.is_this_field(node):
                    read.add((strip_targs(node.get("owner") or ""), node.get("member")))
    for (c, f), info in sorted(bool_fields.items()):
        sets = info["set"]
        if not sets:
            continue            # configuration fixed at construction: nothing to return to
        if (c, f) not in read:
            continue            # written but never read: dead, harmless
        n += 1
        consts = {v for v in sets if v != "computed"}
        ok = "computed" in sets or len(consts) == 2 or bool(info.get("config"))
        m0 = next(iter(sets.values()))[0]
        v0 = next(iter(consts)) if consts else None
        ctx.report(RULE, "LATCH:%s::%s" % (short(c), f), ok, m0.where(), m0.short,
                   "" if ok else "'%s' is set to %s by %s and never set back by any method of the class family: after the "
                   "first run through that branch every later use of the same object sees it, whatever reset()/min_x() did "
                   "in between - answers depend on the history of calls"
                   % (f, str(v0).lower(), ", ".join(sorted({short(x.qn) for x in sets[v0]}))),
                   {"writers": {str(k): sorted({short(x.qn) for x in v}) for k, v in sets.items()}})
    ctx.floor(RULE, int(table.get("floor_latch", 1)), n, "boolean state members of the solver classes")


def rule_lazy_conditional_fields(ctx):
    """A backup member - one whose every write copies another member into it - that is only written under a
    condition on a third (non-flag) member - `if (defect > 0) minV = V_;` - has no value when that condition did
    not hold.  Every read of its value elsewhere in the class must sit
    under a condition on the same member (`if (decomposed && defect != 0) V_ = minV;`); a sibling that reads it
    unconditionally copies an empty backup.  Flags of the lazy table are left to L1/L2; calls that only re-initialise
    the member (reset / clear / erase / resize) are not reads."""
    table = engine.load_table("lazy.json")
    fx = ctx.facts
    n_pairs = 0
    n = 0
    reinit = {"reset", "clear", "erase", "resize", "set_zero", "swap"}
    for cname, spec in sorted(table["classes"].items()):
        cls = cname if cname.startswith("GNU_gama::") else "GNU_gama::" + cname
        fx.cls(cls)
        flags = set(spec.get("flags", {}) if isinstance(spec.get("flags"), dict) else spec.get("flags", []))
        methods = [m for m in fx.methods_of(cls) if m.body is not None and not m.rec.get("ctor") and not m.rec.get("dtor")]

        def guards(m, node):
            out = set()
            for anc in m.ancestors(node):
                if anc.get("k") in ("IfStmt", "ConditionalOperator"):
                    cond = anc.get("cond") if anc.get("k") == "IfStmt" else (anc.get("c") or [None])[0]
                    if not isinstance(cond, dict) or any(x.get("id") == node.get("id") for x in F.walk(cond)):
                        continue
                    for x in F.walk(cond):
                        if F.is_this_field(x):
                            out.add(x["member"])
            return out
        writes, reads = {}, {}
        other = set()
        for m in methods:
            lhs = set()
            for node in m.walk():
                if node.get("k") in ("BinaryOperator", "CXXOperatorCallExpr") and node.get("op") == "=" and node.get("c"):
                    l = node["c"][0] if node["k"] == "BinaryOperator" else (node["c"][1] if len(node["c"]) > 1 else None)
                    if l is not None and F.is_this_field(l):
                        lhs.add(l["id"])
                        writes.setdefault(l["member"], []).append((m, node))
            for node in m.walk():
                if node.get("k") == "MemberExpr" and node.get("mk") == "field" and F.is_this_field(node) and node["id"] not in lhs:
                    par = m.parent(node)
                    # receiver of a re-initialising call: not a read of the value; with arguments (reset(n, n),
                    # resize(n)) it gives the member storage of its own - a write like an assignment
                    if par is not None and par.get("k") == "MemberExpr" and par.get("mk") == "method" and par.get("member") in reinit:
                        call = m.parent(par)
                        if call is not None and [a for a in F.call_args(call) if a.get("k") != "CXXDefaultArgExpr"]:
                            other.add(node["member"])       # gets storage of its own elsewhere: not a pure backup
                        continue
                    reads.setdefault(node["member"], []).append((m, node))
        for f, ws in sorted(writes.items()):
            if f in flags or f in other:
                continue
            # a backup: every write copies another member into it
            if not all(any(F.is_this_field(x) and x.get("member") != f for x in F.walk(node["c"][-1])) for m, node in ws):
                continue
            common = None
            for m, node in ws:
                g = {x for x in guards(m, node) if x != f and x not in flags}
                common = g if common is None else (common & g)
            if not common:
                continue
            writers = {m.key for m, _ in ws}
            for G in sorted(common):
                n_pairs += 1
                for m, node in reads.get(f, []):
                    if m.key in writers and G in guards(m, node):
                        continue
                    n += 1
                    ok = G in guards(m, node)
                    ctx.saw(m)
                    ctx.report(RULE, "COND:%s::%s:%s<-%s" % (short(cls), m.name + ("(%d)" % len(m.params)), f, G), ok,
                               m.where(node), m.short,
                               "" if ok else "`%s` is written only where `%s` is tested (%s), but it is read here without a test of `%s`: "
                               "when the condition did not hold the member has no value" % (
                                   f, G, ", ".join(sorted({short(w.qn) for w, _ in ws})), G))
    ctx.floor(RULE, 1, n_pairs, "members written only under a condition on another member")
    return {"conditional_members": n_pairs}
