"""R-RB: loss-free read-back of the adjustment XML (property C12).

Writer  LocalNetworkXML / WriteXMLVisitor / XMLerror      (lib/gnu_gama/xml/localnetworkxml.cpp, local/xmlerror.cpp)
Reader  LocalNetworkAdjustmentResults::Parser              (tagfun[state][tag] handlers, handler stack)
Data    LocalNetworkAdjustmentResultsData
Users   GamaLocalDeformation, CompareXYZ

Everything is static.  The reader's automaton is the one extracted by fsm2.extract_lnar (constructor
interpretation + state propagation); this module walks it along the element tree of
xml/gama-local-adjustment.xsd (parent/child relation only - the automaton itself decides the order) and,
for every element path, evaluates the start and the end handler abstractly: reachable CFG blocks under the
known values (`start`, the parser state, the tag name, context members set by the start handlers of the
ancestors such as `coordinates_summary_stage` or `pointlist`), and in them every store

        destination access path  <-  set of sources (payload through get_int/get_float/get_string/raw
                                     character data, attribute value, tag name, other locations, constants)

Helpers of the parser and small record methods (Point::clear, XMLerror::setDescription) are entered with
their parameters bound, so "storing through a helper" is the same store.  Destinations are access paths
rooted at the results object (`R.adjusted_points[].x`) or at the parser (`this.tmp_point.x`, scratch);
scratch destinations are followed through the end handlers of the enclosing elements (whole-object copies
`pointlist->push_back(tmp_point)` map field to field) until they reach the results object.

  RB1  every payload leaf / attribute the writer emits is stored into the results data
  RB2  sibling leaf tags feed different fields; one field is not fed from different parents
  RB3  writer operand kind (int/float/text) <= reader conversion <= field type (no narrowing)
  RB4  scratch fields of a record are written before the record is pushed on every valid path, or reset
       per record
  RB5  fields read by the consumers are fields the reader stores document information into; the
       position counter that numbers the rows of the covariance matrix advances once per stored coordinate
       / orientation and is reset where the numbering starts
"""
import os
import re
import xml.etree.ElementTree as ET

import facts as F
from facts import AnalysisBroken, walk, is_call, strip_targs, short
import engine
import fsm
import fsm2
from fsm import TOP

RULE = "R-RB"
XS = "{http://www.w3.org/2001/XMLSchema}"

_TABLE = None


def table():
    global _TABLE
    if _TABLE is None:
        _TABLE = engine.load_table("rb.json")
    return _TABLE


# =========================================================================== XSD content model

class XsdModel:
    """Element tree of the schema with occurrence information: children of an element declaration,
    the children that occur in *every* valid content (mandatory), leaf kind, attributes."""

    INT = {"int", "integer", "nonNegativeInteger", "positiveInteger", "long", "short", "unsignedInt",
           "unsignedLong", "negativeInteger", "nonPositiveInteger", "byte", "unsignedByte", "unsignedShort"}
    FLOAT = {"double", "float", "decimal"}

    def __init__(self, path):
        if not os.path.exists(path):
            raise AnalysisBroken("schema %s not found" % path)
        try:
            self.root = ET.parse(path).getroot()
        except ET.ParseError as e:
            raise AnalysisBroken("schema %s is not well-formed: %s" % (path, e))
        self.gelems = {e.get("name"): e for e in self.root.findall(XS + "element")}
        self.gtypes = {e.get("name"): e for e in self.root.findall(XS + "complexType")}
        self.stypes = {e.get("name"): e for e in self.root.findall(XS + "simpleType")}
        self.ggroups = {e.get("name"): e for e in self.root.findall(XS + "group")}

    @staticmethod
    def _local(q):
        return q.split(":")[-1] if q else q

    def decl(self, name):
        e = self.gelems.get(name)
        if e is None:
            raise AnalysisBroken("schema: element %s is not declared" % name)
        return e

    def _resolve(self, e):
        if e.get("ref"):
            return self.decl(self._local(e.get("ref")))
        return e

    def _type_node(self, e):
        """complexType node of an element declaration (inline or named), or None"""
        t = self._local(e.get("type"))
        if t in self.gtypes:
            return self.gtypes[t]
        return e.find(XS + "complexType")

    def _particles(self, node, depth=0):
        """content particles below a complexType / group: nested tuples
        ('elem', name, decl, min) | ('seq'|'choice', min, [particles])"""
        if depth > 30:
            raise AnalysisBroken("schema: recursive content model")
        out = []
        for ch in node:
            tag = ch.tag
            mn = int(ch.get("minOccurs", "1"))
            if tag == XS + "element":
                d = self._resolve(ch)
                out.append(("elem", d.get("name"), d, mn))
            elif tag in (XS + "sequence", XS + "all"):
                out.append(("seq", mn, self._particles(ch, depth + 1)))
            elif tag == XS + "choice":
                out.append(("choice", mn, self._particles(ch, depth + 1)))
            elif tag == XS + "group" and ch.get("ref"):
                g = self.ggroups.get(self._local(ch.get("ref")))
                if g is None:
                    raise AnalysisBroken("schema refers to an undeclared group %s" % ch.get("ref"))
                out.append(("seq", mn, self._particles(g, depth + 1)))
            elif tag in (XS + "complexContent", XS + "simpleContent", XS + "extension", XS + "restriction"):
                out.extend(self._particles(ch, depth + 1))
            elif tag in (XS + "any", XS + "anyAttribute"):
                raise AnalysisBroken("schema uses xs:any - the content is open")
        return out

    def content(self, e):
        tn = self._type_node(e)
        return self._particles(tn) if tn is not None else []

    def children(self, e):
        """{child name: declaration}"""
        out = {}

        def rec(ps):
            for p in ps:
                if p[0] == "elem":
                    out.setdefault(p[1], p[2])
                else:
                    rec(p[2])
        rec(self.content(e))
        return out

    def mandatory(self, e):
        """names of the children present in every valid content of e"""
        def rec(p):
            if p[0] == "elem":
                return {p[1]} if p[3] >= 1 else set()
            kind, mn, ps = p
            if mn < 1:
                return set()
            sets = [rec(q) for q in ps]
            if not sets:
                return set()
            if kind == "seq":
                return set().union(*sets)
            return set.intersection(*sets)
        res = set()
        for p in self.content(e):
            res |= rec(p)
        return res

    def choices(self, e):
        """lists of element names that are alternatives of one xs:choice of e"""
        out = []

        def rec(ps):
            for p in ps:
                if p[0] == "choice":
                    names = [q[1] for q in p[2] if q[0] == "elem"]
                    if len(names) > 1:
                        out.append(names)
                if p[0] != "elem":
                    rec(p[2])
        rec(self.content(e))
        return out

    def attributes(self, e):
        tn = self._type_node(e)
        out = []
        if tn is not None:
            for a in tn.iter(XS + "attribute"):
                if a.get("use") != "prohibited":
                    out.append(a.get("name") or self._local(a.get("ref")))
        return out

    def leaf_kind(self, e):
        """'int' | 'float' | 'text' for an element with simple content, 'empty' for an empty element,
        None for an element with element children"""
        if self.children(e):
            return None
        t = self._local(e.get("type"))
        st = e.find(XS + "simpleType")
        if t is None and st is None:
            tn = self._type_node(e)
            if tn is not None and tn.find(XS + "simpleContent") is None:
                return "empty"
            return "text"
        seen = 0
        while t in self.stypes and seen < 10:
            r = self.stypes[t].find(XS + "restriction")
            t = self._local(r.get("base")) if r is not None else None
            seen += 1
        if t is None and st is not None:
            r = st.find(XS + "restriction")
            t = self._local(r.get("base")) if r is not None else None
        if t in self.INT:
            return "int"
        if t in self.FLOAT:
            return "float"
        return "text"


# =========================================================================== reader: element paths

class ReaderPaths:
    """Element paths (tuples of element names below the root) that the reader's automaton accepts,
    restricted to the parent/child relation of the schema, with the handlers that serve them."""

    def __init__(self):
        self.start = {}     # path -> {(state before, start handler key, state after, pushed end handler key)}
        self.end = {}       # path -> {(state at the end tag, end handler key, state after)}
        self.decl = {}      # path -> schema declaration
        self.refused = {}   # path -> reason (schema path that no start transition accepts)


def reader_paths(ctx, xsd, A, tb, disp, tmap, root_name):
    P = ReaderPaths()
    table_ = tb.tables[disp]
    end_cache = {}

    def end_items(s, top):
        k = (s, top)
        if k not in end_cache:
            end_cache[k] = A.end_fn(s, top)
        return end_cache[k]

    def hkey(h):
        return h[1] if isinstance(h, tuple) and len(h) > 1 and h[0] == "f" else None

    seen = set()
    work = [(A.start_state, (), (), ())]        # state, handler stack, names, declarations
    root_decl = xsd.decl(root_name)
    while work:
        s, hs, names, decls = work.pop()
        if (s, hs, names) in seen:
            continue
        seen.add((s, hs, names))
        if len(names) > 12:
            raise AnalysisBroken("adjustment XML: element nesting deeper than 12")
        kids = {root_name: root_decl} if not names else xsd.children(decls[-1])
        for c, d in sorted(kids.items()):
            path = names + (c,)
            P.decl.setdefault(path, d)
            if c not in tmap:
                P.refused.setdefault(path, "the reader's tag() does not know <%s>" % c)
                continue
            t = tmap[c][1]
            h = hkey(table_.get((s, t)))
            for tok, ops in A._start(s, t):
                if tok == TOP:
                    raise AnalysisBroken("LNAR parser: start of <%s> in state %s leaves the state unknown"
                                         % (c, A.sname(s)))
                if tok[1] == A.error or tok[2] == "escaped":
                    continue
                pushed = [op[1] for op in ops if op[0] == "push"]
                if len(pushed) != 1 or any(op[0] == "pop" for op in ops):
                    continue        # stack discipline is R-FSM's clause (LNARparser:push:*)
                P.start.setdefault(path, set()).add((s, h, tok[1], hkey(pushed[0])))
                work.append((tok[1], hs + (pushed[0],), path, decls + (d,)))
        if names:
            top = hs[-1]
            for tok, ops in end_items(s, top):
                if tok == TOP:
                    raise AnalysisBroken("LNAR parser: end of <%s> in state %s leaves the state unknown"
                                         % (names[-1], A.sname(s)))
                if tok[1] == A.error or tok[2] == "escaped":
                    continue
                P.end.setdefault(names, set()).add((s, hkey(top), tok[1]))
                work.append((tok[1], hs[:-1], names[:-1], decls[:-1]))
    return P


# =========================================================================== abstract handler evaluation

R = ("R",)            # root of the results object
THIS = ("this",)      # root of the parser object (scratch)

_CASTS = ("CXXStaticCastExpr", "CStyleCastExpr", "CXXFunctionalCastExpr", "ImplicitCastExpr",
          "CXXReinterpretCastExpr", "CXXConstCastExpr")
_STMT_PARENTS = ("CompoundStmt", "IfStmt", "ForStmt", "WhileStmt", "DoStmt", "CaseStmt", "DefaultStmt",
                 "SwitchStmt", "LabelStmt", "CXXForRangeStmt", None)
_APPEND = ("push_back", "emplace_back", "push", "insert", "push_front", "emplace", "append", "operator+=")
_ELEM = ("begin", "end", "back", "front", "at", "operator[]", "operator()", "data", "cbegin", "cend",
         "operator*", "operator->")
_INT_T = ("int", "unsigned int", "long", "unsigned long", "short", "unsigned short", "long long",
          "unsigned long long", "char", "unsigned char", "signed char")
_FLT_T = ("double", "float", "long double")


def type_kind(t):
    """payload kind a value of C++ type t can hold without loss: int < float < text; bool apart"""
    t = (t or "").replace("const ", "").replace("&", "").strip()
    if t == "bool":
        return "bool"
    if t in _INT_T or t.startswith("enum "):
        return "int"
    if t in _FLT_T:
        return "float"
    if t.startswith("std::basic_string<char") or t in ("char *", "const char *", "std::string"):
        return "text"
    return None


_ORDER = {"int": 0, "float": 1, "text": 2, "raw": 2}


class Store:
    __slots__ = ("dst", "deps", "kind", "node", "fn", "dst_t", "where", "must", "site")

    def __init__(self, dst, deps, kind, node, fn, dst_t, must=False, site=None):
        self.dst, self.deps, self.kind, self.node, self.fn, self.dst_t = dst, frozenset(deps), kind, node, fn, dst_t
        self.where = fn.where(node) if node is not None else fn.where()
        self.must = must                    # executed on every path through the evaluated function
        self.site = site or (fn, node)      # statement of the outermost evaluated function it belongs to

    def lifted(self, fn, call_node, call_must):
        """the same store seen from a caller: it happens at the call site"""
        return Store(self.dst, self.deps, self.kind, self.node, self.fn, self.dst_t,
                     self.must and call_must, (fn, call_node))

    def ident(self):
        return (self.dst, self.deps, self.kind, self.fn.key, self.node["id"] if self.node else None,
                self.site[0].key, self.site[1]["id"] if self.site[1] else None, self.must)

    def pay(self):
        return {a for a in self.deps if a[0] in ("pay", "attr")}

    def locs(self):
        return {a[1] for a in self.deps if a[0] == "loc"}

    def consts(self):
        return {a[1] for a in self.deps if a[0] == "const"}

    def __repr__(self):
        return "%s <- %s (%s)" % (fmt_path(self.dst), sorted(map(fmt_atom, self.deps)), self.kind)


def fmt_path(p):
    out = ""
    for x in p:
        if x == "[]":
            out += "[]"
        elif isinstance(x, tuple):
            out += ("." if out else "") + "<%s>" % ":".join(map(str, x))
        else:
            out += ("." if out else "") + str(x)
    return out


def fmt_atom(a):
    if a[0] == "loc":
        return "loc " + fmt_path(a[1])
    return " ".join(str(x) for x in a)


class Effects:
    def __init__(self):
        self.stores = []
        self.ptr_sets = []       # (member, frozenset(paths))
        self.const_sets = []     # (member, value)
        self.opaque = []         # text: payload handed to code the evaluation does not model
        self.undecided = set()   # members a branch condition depended on without a known value
        self.rets = set()
        self.fns = set()

    def merge(self, other, lift=None):
        have = {st.ident() for st in self.stores}
        for st in other.stores:
            st2 = st if lift is None else st.lifted(*lift)
            if st2.ident() not in have:
                have.add(st2.ident())
                self.stores.append(st2)
        self.ptr_sets.extend(other.ptr_sets)
        self.const_sets.extend(other.const_sets)
        self.opaque.extend(other.opaque)
        self.undecided |= other.undecided
        self.fns |= other.fns


class Env:
    """What is known when a handler runs: receiver path, parser state, tag name, attribute name,
    constant context members, pointees of context pointers."""

    def __init__(self, this=THIS, state=None, tag=None, attrname=None, members=None, ptr=None):
        self.this = this
        self.state = state
        self.tag = tag
        self.attrname = attrname
        self.members = dict(members or {})
        self.ptr = dict(ptr or {})

    def key(self):
        return (self.this, self.state, self.tag, self.attrname, tuple(sorted(self.members.items(), key=str)),
                tuple(sorted((k, tuple(sorted(v))) for k, v in self.ptr.items())))

    def copy(self, **kw):
        e = Env(self.this, self.state, self.tag, self.attrname, self.members, self.ptr)
        for k, v in kw.items():
            setattr(e, k, v)
        return e


class Model:
    """Static description of the reader class, found structurally (no member is looked up by name)."""

    def __init__(self, ctx, X, tb, disp, A):
        fx = ctx.facts
        T = X["T"]
        self.fx = fx
        self.cls = T["class"]
        self.hier = {self.cls, "GNU_gama::CoreParser", "GNU_gama::BaseParser"}
        rec = fx.cls(self.cls)
        self.field_t = {f["name"]: f["t"] for f in rec["fields"]}
        self.disp = disp
        self.error_value = A.error
        # pointer to the results object: the member whose pointee class derives from the results data class
        data_cls = table()["results_data_class"]
        fx.cls(data_cls)
        self.results_ptr = None
        for name, t in self.field_t.items():
            if t.endswith("*"):
                pointee = t[:-1].strip()
                if pointee == data_cls or data_cls in fx.bases_of(pointee):
                    self.results_ptr = name
                    self.results_cls = pointee
        if self.results_ptr is None:
            raise AnalysisBroken("%s has no member pointing to %s" % (self.cls, data_cls))
        # character data accumulator: the member characterDataHandler appends to
        self.data_field = None
        for n in X["data_fn"].walk():
            if n.get("k") in ("CXXOperatorCallExpr", "CompoundAssignOperator") and n.get("op") == "+=":
                lhs = n["c"][1] if n["k"] == "CXXOperatorCallExpr" else n["c"][0]
                f = fsm2._this_field(lhs)
                if f:
                    self.data_field = f
            if n.get("k") == "CXXMemberCallExpr" and short(n.get("callee") or "").split("::")[-1] in ("append", "push_back"):
                f = fsm2._this_field(F.call_object(n))
                if f:
                    self.data_field = f
        if self.data_field is None:
            raise AnalysisBroken("characterDataHandler of %s does not append to a member" % self.cls)
        # members that receive the element name / the attribute array in startElement and tag()
        self.tag_members = set()
        self.attr_member = None
        start_fn, tag_fn = X["start_fn"], fx.fn(self.cls + "::tag")
        self.start_fn, self.tag_fn, self.end_fn = start_fn, tag_fn, X["end_fn"]
        for fn, pidx in ((start_fn, 0), (tag_fn, 0)):
            pd = fn.params[pidx]["decl"]
            for n in fn.walk():
                lhs = rhs = None
                if n.get("k") == "CXXOperatorCallExpr" and n.get("op") == "=" and len(n.get("c") or []) == 3:
                    lhs, rhs = n["c"][1], n["c"][2]
                elif n.get("k") == "BinaryOperator" and n.get("op") == "=":
                    lhs, rhs = n["c"]
                if lhs is None:
                    continue
                f = fsm2._this_field(lhs)
                if f and any(x.get("k") == "DeclRefExpr" and x["ref"].get("decl") == pd for x in walk(rhs)):
                    self.tag_members.add(f)
        if len(start_fn.params) > 1:
            ad = start_fn.params[1]["decl"]
            for n in start_fn.walk():
                if n.get("k") == "BinaryOperator" and n.get("op") == "=":
                    f = fsm2._this_field(n["c"][0])
                    if f and any(x.get("k") == "DeclRefExpr" and x["ref"].get("decl") == ad for x in walk(n["c"][1])):
                        self.attr_member = f
        if not self.tag_members:
            raise AnalysisBroken("startElement/tag of %s do not keep the element name in a member" % self.cls)
        self.stack_field = None
        for n in X["end_fn"].walk():
            if n.get("k") == "CXXMemberCallExpr" and strip_targs(n.get("callee") or "").startswith("std::stack::"):
                self.stack_field = fsm2._this_field(F.call_object(n)) or self.stack_field
        self.state_field = "state"
        # payload readers: parameterless value-returning methods that read the accumulator
        self.readers = {}
        for f in fx.methods_of(self.cls):
            if f.body is None or f.params:
                continue
            ret = (f.rec.get("ret") or "").strip()
            kind = type_kind(ret)
            if kind in (None, "bool"):
                continue
            if any(fsm2._this_field(n) == self.data_field for n in f.walk()):
                # the local the text is extracted into decides when it is narrower than the result type
                for n in f.walk():
                    if n.get("k") == "CXXOperatorCallExpr" and n.get("op") == ">>":
                        k2 = type_kind(n["c"][-1].get("t"))
                        if k2 in _ORDER and _ORDER[k2] < _ORDER[kind]:
                            kind = k2
                self.readers[f.key] = kind
        if not self.readers:
            raise AnalysisBroken("%s has no payload reader (method returning a value read from %s)"
                                 % (self.cls, self.data_field))
        self.ptr_members = {n for n, t in self.field_t.items()
                            if (t.endswith("*") or "iterator" in t) and n not in (self.results_ptr, self.attr_member)
                            and "(" not in t}
        self.ptsto = {}          # flow-insensitive pointees of pointer members
        self.end_set = set()     # members assigned outside start branches (not context members)


class Evaluator:
    def __init__(self, model):
        self.M = model
        self.fx = model.fx
        self.memo = {}
        self.active = set()

    # ------------------------------------------------------------------ one function
    def run(self, fn, env, cbind=None, dbind=None, lbind=None, depth=0):
        """Effects of fn under env; cbind: param decl -> constant, dbind: param decl -> source atoms,
        lbind: param decl -> set of location paths (reference / pointer parameters)."""
        cbind, dbind, lbind = cbind or {}, dbind or {}, lbind or {}
        key = (fn.key, env.key(), tuple(sorted(cbind.items(), key=str)),
               tuple(sorted((k, tuple(sorted(v, key=str))) for k, v in dbind.items())),
               tuple(sorted((k, tuple(sorted(v))) for k, v in lbind.items())))
        if key in self.memo:
            return self.memo[key]
        if key in self.active or depth > 8:
            e = Effects()
            e.opaque.append("recursive or too deep call of %s" % fn.short)
            return e
        self.active.add(key)
        try:
            res = _FnEval(self, fn, env, cbind, dbind, lbind, depth).go()
        finally:
            self.active.discard(key)
        self.memo[key] = res
        return res


class _FnEval:
    def __init__(self, ev, fn, env, cbind, dbind, lbind, depth):
        self.ev, self.M, self.fn, self.env, self.fx = ev, ev.M, fn, env, ev.fx
        self.cbind, self.dbind, self.lbind, self.depth = cbind, dbind, lbind, depth
        self.eff = Effects()
        self.eff.fns.add(fn.key)
        self.calls = {}          # call node id -> Effects of the callee (or None)
        self.edges = {}
        self.must_blocks = set()
        self._ldeps = {}
        self._lloc = {}
        self._ldefs = None
        self.attrname_locals = None

    # ---- locals
    def _local_defs(self):
        if self._ldefs is None:
            d = {}
            for n in self.fn.walk():
                k = n.get("k")
                if k == "DeclStmt":
                    for dd in n.get("decls", []):
                        if "decl" in dd:
                            d.setdefault(dd["decl"], []).append(("init", dd.get("init"), dd.get("t")))
                elif k == "BinaryOperator" and n.get("op") == "=":
                    l = n["c"][0]
                    if l.get("k") == "DeclRefExpr" and l["ref"].get("dk") == "local":
                        d.setdefault(l["ref"]["decl"], []).append(("assign", n["c"][1], l.get("t")))
                elif k == "CXXOperatorCallExpr" and n.get("op") in ("=", "+=") and len(n.get("c") or []) == 3:
                    l = n["c"][1]
                    if l.get("k") == "DeclRefExpr" and l["ref"].get("dk") == "local":
                        d.setdefault(l["ref"]["decl"], []).append(("assign", n["c"][2], l.get("t")))
            self._ldefs = d
            # attribute-name locals: initialised from the attribute array and compared with literals
            self.attrname_locals = set()
            if self.M.attr_member:
                for decl, defs in d.items():
                    from_attr = any(x is not None and any(fsm2._this_field(y) == self.M.attr_member for y in walk(x))
                                    for _, x, _ in defs)
                    if from_attr and fsm2._string_eq_literals(self.fn, decl):
                        self.attrname_locals.add(decl)
        return self._ldefs

    def local_deps(self, decl):
        if decl in self._ldeps:
            return self._ldeps[decl]
        self._ldeps[decl] = frozenset()
        defs = self._local_defs().get(decl, [])
        if decl in self.attrname_locals:
            res = frozenset({("attrname",)})
        else:
            res = set()
            for _, x, _ in defs:
                if x is not None:
                    res |= self.deps(x)
            res = frozenset(res)
        self._ldeps[decl] = res
        return res

    def local_loc(self, decl):
        """locations a reference / pointer local is bound to (None when it is an ordinary object)"""
        if decl in self._lloc:
            return self._lloc[decl]
        self._lloc[decl] = None
        res = None
        for how, x, t in self._local_defs().get(decl, []):
            t = (t or "").strip()
            if how == "init" and x is not None and (t.endswith("&") or t.endswith("*")):
                ps = self.ptrval(x) if t.endswith("*") else self.paths(x)
                res = (res or set()) | ps
        self._lloc[decl] = res
        return res

    # ---- constants (branch conditions)
    def cval(self, n):
        if n is None:
            return None
        k = n.get("k")
        c = n.get("c") or []
        if k in ("IntegerLiteral", "CXXBoolLiteralExpr", "CharacterLiteral", "StringLiteral", "FloatingLiteral"):
            v = n.get("v")
            return int(v) if isinstance(v, bool) else v
        if k == "CXXNullPtrLiteralExpr":
            return 0
        if k == "DeclRefExpr":
            r = n["ref"]
            if r.get("dk") == "enumconst":
                return r.get("v")
            if r.get("dk") == "parm":
                return self.cbind.get(r.get("decl"))
            if r.get("dk") == "local":
                self._local_defs()
                if r.get("decl") in self.attrname_locals:
                    return self.env.attrname
            return None
        if k == "MemberExpr" and n.get("mk") == "field":
            f = fsm2._this_field(n)
            if f is None or self.env.this != THIS:
                return None
            if f == self.M.state_field:
                if self.env.state is None:
                    self.eff.undecided.add(f)
                return self.env.state
            if f in self.M.tag_members:
                return self.env.tag
            if f in self.env.members:
                return self.env.members[f]
            if type_kind(self.M.field_t.get(f)) in ("int", "bool") and f not in self.M.end_set:
                self.eff.undecided.add(f)
            return None
        if k in _CASTS or (k in ("CXXConstructExpr", "CXXTemporaryObjectExpr") and len(c) == 1):
            return self.cval(c[0]) if c else None
        if k == "UnaryOperator":
            op = n.get("op")
            v = self.cval(c[0])
            if op == "!":
                return None if v is None else int(not v)
            if op == "*" and isinstance(v, str):
                return ord(v[0]) if v else 0
            if op == "-" and isinstance(v, (int, float)):
                return -v
            return None
        if k == "BinaryOperator" or (k == "CXXOperatorCallExpr" and n.get("op") in ("==", "!=")):
            op = n.get("op")
            a, b = (c[0], c[1]) if k == "BinaryOperator" else (c[1], c[2])
            if op in ("&&", "||"):
                va, vb = self.cval(a), self.cval(b)
                if op == "&&":
                    if (va is not None and not va) or (vb is not None and not vb):
                        return 0
                    return 1 if (va is not None and vb is not None) else None
                if (va is not None and va) or (vb is not None and vb):
                    return 1
                return 0 if (va is not None and vb is not None) else None
            va, vb = self.cval(a), self.cval(b)
            if va is None or vb is None or isinstance(va, str) != isinstance(vb, str):
                return None
            try:
                return {"==": int(va == vb), "!=": int(va != vb), "<": int(va < vb), "<=": int(va <= vb),
                        ">": int(va > vb), ">=": int(va >= vb)}.get(op)
            except TypeError:
                return None
        if k == "CallExpr":
            name = short(n.get("callee") or "").split("::")[-1]
            args = F.call_args(n)
            if name == "strcmp" and len(args) == 2:
                va, vb = self.cval(args[0]), self.cval(args[1])
                if isinstance(va, str) and isinstance(vb, str):
                    return 0 if va == vb else 1
            return None
        if k == "CXXMemberCallExpr":
            name = short(n.get("callee") or "").split("::")[-1]
            args = F.call_args(n)
            if name == "compare" and len(args) == 1:
                va, vb = self.cval(F.call_object(n)), self.cval(args[0])
                if isinstance(va, str) and isinstance(vb, str):
                    return 0 if va == vb else 1
            if name == "c_str" and not args:
                return self.cval(F.call_object(n))
            return None
        return None

    # ---- reachable blocks under the known values
    def reachable(self):
        cfg, nodes = self.fn.cfg, self.fn.nodes
        seen, order, work = {cfg.entry}, [], [cfg.entry]
        while work:
            b = work.pop()
            order.append(b)
            blk = cfg.blocks[b]
            raw = list(blk.get("succ", []))
            succs = [s for s in raw if s is not None and s >= 0]
            cond = nodes.get(blk["cond"]) if blk.get("cond") is not None else None
            tk = blk.get("termK")
            if cond is not None and tk == "SwitchStmt":
                v = self.cval(cond)
                if v is not None:
                    labels, default = {}, None
                    for s in succs:
                        lab = nodes.get(cfg.blocks[s].get("label")) if cfg.blocks[s].get("label") else None
                        if lab is not None and lab.get("k") == "CaseStmt" and "v" in lab:
                            labels.setdefault(lab["v"], s)
                        else:
                            default = s
                    tgt = labels.get(v, default)
                    succs = [tgt] if tgt is not None else []
            elif cond is not None and len(raw) == 2 and tk in (
                    "IfStmt", "ConditionalOperator", "BinaryOperator", "WhileStmt", "ForStmt", "DoStmt"):
                v = self.cval(cond)
                if v is not None:
                    s = raw[0] if v else raw[1]
                    succs = [s] if s is not None and s >= 0 else []
            self.edges[b] = list(succs)
            for s in succs:
                if s not in seen:
                    seen.add(s)
                    work.append(s)
        return order

    # ---- location paths
    def pointee(self, p):
        """locations a pointer-valued location p points to"""
        if p == THIS + (self.M.results_ptr,):
            return {R}
        if len(p) == 2 and p[0] == "this" and p[1] in self.M.ptr_members:
            m = p[1]
            if m in self.env.ptr:
                return set(self.env.ptr[m])
            if m in self.M.ptsto and self.M.ptsto[m]:
                if m not in self.M.end_set:
                    self.eff.undecided.add(m)
                return set(self.M.ptsto[m])
        return {("?",) + tuple(p)}

    def deref(self, p):
        """pointer members of the parser are followed; bound pointer parameters / locals already denote
        their pointees"""
        if p[0] == "this" and len(p) == 2 and (p[1] in self.M.ptr_members or p[1] == self.M.results_ptr) \
                and self.env.this == THIS:
            return self.pointee(p)
        return {p}

    def obj_paths(self, n):
        """receiver locations of a member call"""
        obj = F.call_object(n)
        ps = self.paths(obj)
        if n.get("k") == "CXXMemberCallExpr" and n["c"][0].get("arrow") and obj.get("k") != "CXXThisExpr":
            out = set()
            for p in ps:
                out |= self.deref(p)
            ps = out
        return ps

    def paths(self, n):
        """set of access paths the lvalue / object expression n can denote"""
        if n is None:
            return {("?",)}
        k = n.get("k")
        c = n.get("c") or []
        if k == "CXXThisExpr":
            return {self.env.this}
        if k == "MemberExpr" and n.get("mk") == "field":
            bases = self.paths(c[0]) if c else {("?",)}
            if n.get("arrow") and c and c[0].get("k") != "CXXThisExpr":
                out = set()
                for b in bases:
                    out |= self.deref(b)
                bases = out
            return {b + (n.get("member"),) for b in bases}
        if k == "DeclRefExpr":
            r = n["ref"]
            d = r.get("decl")
            if r.get("dk") == "parm":
                if d in self.lbind:
                    return set(self.lbind[d])
                return {("p", d)}
            if r.get("dk") == "local":
                ll = self.local_loc(d)
                if ll is not None:
                    return set(ll)
                return {("l", d)}
            return {("g", r.get("qn") or r.get("name"))}
        if k in _CASTS or k in ("CXXConstructExpr", "CXXTemporaryObjectExpr") and len(c) == 1:
            return self.paths(c[0]) if c else {("?",)}
        if k == "UnaryOperator":
            op = n.get("op")
            if op in ("++", "--"):
                return self.paths(c[0])
            if op == "&":
                return self.paths(c[0])
            if op == "*":
                out = set()
                for p in self.paths(c[0]):
                    out |= self.deref(p)
                return out
        if k == "ArraySubscriptExpr":
            return {p + ("[]",) for p in self.paths(c[0])}
        if k == "CXXOperatorCallExpr" and n.get("op") in ("[]", "()", "*", "->") and len(c) >= 2:
            return {p + ("[]",) for p in self.paths(c[1])}
        if k == "CXXOperatorCallExpr" and n.get("op") in ("++", "--") and len(c) >= 2:
            return self.paths(c[1])
        if k == "CXXMemberCallExpr":
            name = short(n.get("callee") or "").split("::")[-1]
            if name in _ELEM:
                return {p + ("[]",) for p in self.obj_paths(n)}
        return {("?",)}

    def ptrval(self, n):
        """locations a pointer / iterator valued expression points to"""
        k = n.get("k")
        c = n.get("c") or []
        if k in _CASTS and c:
            return self.ptrval(c[0])
        if k == "UnaryOperator" and n.get("op") == "&":
            return self.paths(c[0])
        if k == "CXXNullPtrLiteralExpr" or (k == "IntegerLiteral" and n.get("v") == 0):
            return set()
        if k == "CXXMemberCallExpr":
            name = short(n.get("callee") or "").split("::")[-1]
            if name in ("begin", "cbegin", "data", "end", "cend"):
                return {p + ("[]",) for p in self.obj_paths(n)}
        if k in ("MemberExpr", "DeclRefExpr"):
            out = set()
            for p in self.paths(n):
                out |= self.deref(p)
            return out
        return {("?",)}

    # ---- data sources of a value
    def deps(self, n):
        if n is None:
            return frozenset()
        k = n.get("k")
        c = n.get("c") or []
        M = self.M
        if k in ("IntegerLiteral", "CXXBoolLiteralExpr", "CharacterLiteral", "StringLiteral", "FloatingLiteral",
                 "CXXNullPtrLiteralExpr"):
            return frozenset({("const", repr(n.get("v")))})
        if k == "DeclRefExpr":
            r = n["ref"]
            dk = r.get("dk")
            if dk == "enumconst":
                return frozenset({("const", r.get("qn") or r.get("name"))})
            if dk == "parm":
                d = r.get("decl")
                out = set(self.dbind.get(d, ()))
                if d in self.lbind:
                    out |= {("loc", p) for p in self.lbind[d]}
                if d not in self.dbind and d not in self.lbind:
                    out.add(("parm", r.get("name")))
                return frozenset(out)
            if dk == "local":
                d = r.get("decl")
                ll = self.local_loc(d)
                if ll is not None:
                    return frozenset(("loc", p) for p in ll)
                return frozenset(self.local_deps(d) | {("loc", ("l", d))})
            if dk in ("global", "staticmember"):
                return frozenset({("const", r.get("qn") or r.get("name"))})
            return frozenset()
        if k == "MemberExpr" and n.get("mk") == "field":
            out = set()
            for p in self.paths(n):
                if p == THIS + (M.data_field,):
                    out.add(("pay", "raw"))
                elif len(p) == 2 and p[0] == "this" and p[1] in M.tag_members:
                    out.add(("tag",))
                elif p == THIS + (M.attr_member,):
                    out.add(("attr",))
                else:
                    out.add(("loc", p))
            return frozenset(out)
        if k == "CXXThisExpr":
            return frozenset()
        if k in ("CXXMemberCallExpr", "CallExpr"):
            return self._call_deps(n)
        if k == "CXXOperatorCallExpr":
            op = n.get("op")
            args = c[1:]
            out = set()
            for a in args:
                out |= self.deps(a)
            if op in ("==", "!=", "<", ">", "<=", ">="):
                out.add(("derived",))
            if op in ("=",) and len(args) == 2:
                return self.deps(args[1])
            return frozenset(out)
        if k in ("BinaryOperator", "CompoundAssignOperator"):
            op = n.get("op")
            if op == "=":
                return self.deps(c[1])
            if op == ",":
                return self.deps(c[1])
            out = set(self.deps(c[0])) | set(self.deps(c[1]))
            if op in ("==", "!=", "<", ">", "<=", ">=", "&&", "||"):
                out.add(("derived",))
            return frozenset(out)
        if k == "UnaryOperator":
            op = n.get("op")
            if op == "*":
                # value behind a pointer: the attribute array, or a pointee location
                inner = c[0]
                if any(fsm2._this_field(x) == M.attr_member for x in walk(inner)) and M.attr_member:
                    return frozenset({("attr",)})
                return frozenset(("loc", p) for p in self.paths(n))
            out = set(self.deps(c[0]))
            if op == "!":
                out.add(("derived",))
            return frozenset(out)
        if k == "ConditionalOperator" and len(c) == 3:
            return frozenset(set(self.deps(c[1])) | set(self.deps(c[2])) | ({("derived",)} if self.deps(c[0]) else set()))
        if k == "ArraySubscriptExpr":
            if M.attr_member and any(fsm2._this_field(x) == M.attr_member for x in walk(c[0])):
                return frozenset({("attr",)})
            return frozenset(("loc", p) for p in self.paths(n))
        out = set()
        for x in F.children(n):
            if isinstance(x, dict) and "k" in x:
                out |= self.deps(x)
        return frozenset(out)

    def _call_deps(self, n):
        M = self.M
        if n.get("calleeKey") in M.readers and fsm2._is_this(F.call_object(n)) and self.env.this == THIS:
            return frozenset({("pay", M.readers[n["calleeKey"]])})
        sub = self.call_effects(n)
        if sub is not None:
            return frozenset(sub.rets)
        name = short(n.get("callee") or "").split("::")[-1]
        out = set()
        obj = F.call_object(n)
        if obj is not None:
            if name in _ELEM:
                out |= {("loc", p) for p in self.paths(n)}
            else:
                out |= self.deps(obj)
        for a in F.call_args(n):
            out |= self.deps(a)
        # a conversion of raw text by a library function: the result type tells the kind
        tk = type_kind(n.get("t"))
        if ("pay", "raw") in out and tk in ("int", "float") and n.get("k") == "CallExpr":
            out.discard(("pay", "raw"))
            out.add(("pay", tk))
        return frozenset(out)

    # ---- calls
    def descendable(self, n):
        key = n.get("calleeKey")
        callee = self.fx.functions.get(key)
        if callee is None or callee.body is None or key in self.M.readers:
            return None
        ccls = strip_targs(n.get("calleeClass") or callee.cls or "")
        if n.get("k") == "CXXMemberCallExpr":
            if "<" in (n.get("calleeClass") or "") or ccls.startswith("std::"):
                return None
            if ccls in self.M.hier:
                return callee if fsm2._is_this(F.call_object(n)) or F.call_object(n) is None else None
            if callee.rec.get("inst"):
                return None
            return callee
        return None

    def call_effects(self, n):
        """Effects of a call into a function that is entered (parser helper, small record method)."""
        nid = n["id"]
        if nid in self.calls:
            return self.calls[nid]
        self.calls[nid] = None
        callee = self.descendable(n)
        if callee is None:
            return None
        args = F.call_args(n)
        cb, db, lb = {}, {}, {}
        for p, a in zip(callee.params, args):
            if a.get("k") == "CXXDefaultArgExpr":
                continue
            v = self.cval(a)
            if v is not None:
                cb[p["decl"]] = v
            t = (p.get("t") or "").strip()
            if t.endswith("&") and not t.startswith("const ") or (t.endswith("*") and type_kind(t) != "text"):
                lb[p["decl"]] = frozenset(self.ptrval(a) if t.endswith("*") else self.paths(a))
                db[p["decl"]] = frozenset()
            else:
                db[p["decl"]] = self.deps(a)
        obj = F.call_object(n)
        results = []
        if obj is None or fsm2._is_this(obj):
            results.append(self.ev.run(callee, self.env, cb, db, lb, self.depth + 1))
        else:
            for p in sorted(self.obj_paths(n)):
                env = Env(this=p)
                results.append(self.ev.run(callee, env, cb, db, lb, self.depth + 1))
        tot = Effects()
        for r in results:
            tot.merge(r)
            tot.rets |= r.rets
        self.calls[nid] = tot
        return tot

    # ---- statement effects
    def store(self, dsts, deps, kind, node, dst_t):
        must = self.is_must(node) and len(dsts) == 1
        for d in sorted(dsts, key=str):
            self.eff.stores.append(Store(d, deps, kind, node, self.fn, dst_t, must))

    def has_payload(self, deps):
        return any(a[0] in ("pay", "attr") for a in deps)

    def go(self):
        fn, M = self.fn, self.M
        if fn.body is None:
            return self.eff
        nodes = fn.nodes
        done = set()
        order = self.reachable()
        # blocks executed on every path of the pruned CFG: dominators of the exit block
        pred = {b: [] for b in order}
        for b, ss in self.edges.items():
            for x in ss:
                pred.setdefault(x, []).append(b)
        dom = F.CFG._dominators(fn.cfg.entry, order, pred)
        self.must_blocks = dom.get(fn.cfg.exit, set()) if fn.cfg.exit in dom else set()
        for b in order:
            for e in fn.cfg.blocks[b].get("el", []):
                if not isinstance(e, int) or e in done:
                    continue
                done.add(e)
                n = nodes.get(e)
                if n is not None:
                    self.visit(n)
        return self.eff

    def visit(self, n):
        k = n.get("k")
        c = n.get("c") or []
        M = self.M
        if k == "ReturnStmt":
            if c:
                self.eff.rets |= self.deps(c[0])
            return
        if k == "BinaryOperator" and n.get("op") == "=":
            self.assign(n, c[0], c[1])
            return
        if k == "CXXOperatorCallExpr" and n.get("op") == "=" and len(c) == 3:
            self.assign(n, c[1], c[2])
            return
        if k == "CompoundAssignOperator" or (k == "CXXOperatorCallExpr" and n.get("op") in ("+=", "-=", "*=", "/=")
                                             and len(c) == 3):
            lhs, rhs = (c[0], c[1]) if k == "CompoundAssignOperator" else (c[1], c[2])
            dsts = self.paths(lhs)
            if self.is_ptr_member(lhs):
                return
            self.store(dsts, set(self.deps(rhs)) | {("loc", d) for d in dsts}, "incr", n, lhs.get("t"))
            return
        if k == "UnaryOperator" and n.get("op") in ("++", "--"):
            if self.is_ptr_member(c[0]) or "*" in (c[0].get("t") or ""):
                return
            dsts = self.paths(c[0])
            self.store(dsts, {("loc", d) for d in dsts} | {("const", "1" if n.get("op") == "++" else "-1")},
                       "incr", n, c[0].get("t"))
            return
        if k == "CXXMemberCallExpr":
            self.member_call(n)
            return
        if k == "CallExpr":
            sub = self.call_effects(n)
            if sub is not None:
                self.eff.merge(sub, (self.fn, n, self.is_must(n)))
                return
            par = self.fn.parent(n)
            if (par is None or par.get("k") in _STMT_PARENTS) and self.has_payload(self._call_deps(n)):
                self.eff.opaque.append("%s: payload passed to %s" % (self.fn.where(n), short(n.get("callee") or "?")))
            return

    def is_must(self, node):
        pos = self.fn.cfg.block_of(node) if node is not None else None
        return pos is not None and pos[0] in self.must_blocks

    def is_ptr_member(self, lhs):
        f = fsm2._this_field(lhs)
        return f is not None and self.env.this == THIS and f in self.M.ptr_members

    def assign(self, n, lhs, rhs):
        M = self.M
        f = fsm2._this_field(lhs) if self.env.this == THIS else None
        if f is not None and f in M.ptr_members:
            self.eff.ptr_sets.append((f, frozenset(self.ptrval(rhs))))
            return
        if f is not None and f == M.attr_member:
            return
        dsts = self.paths(lhs)
        deps = self.deps(rhs)
        if f is not None:
            v = self.cval(rhs)
            if v is not None and type_kind(M.field_t.get(f)) in ("int", "bool"):
                self.eff.const_sets.append((f, v))
            elif type_kind(M.field_t.get(f)) in ("int", "bool"):
                self.eff.const_sets.append((f, None))
        self.store(dsts, deps, "assign", n, lhs.get("t"))

    def member_call(self, n):
        M = self.M
        name = short(n.get("callee") or "").split("::")[-1]
        obj = F.call_object(n)
        args = [a for a in F.call_args(n) if a.get("k") != "CXXDefaultArgExpr"]
        if n.get("calleeKey") in M.readers and fsm2._is_this(obj):
            par = self.fn.parent(n)
            if par is None or par.get("k") in _STMT_PARENTS:
                self.eff.stores.append(Store(("dropped",), {("pay", M.readers[n["calleeKey"]])}, "drop", n, self.fn, None))
            return
        if obj is not None and fsm2._this_field(obj) == M.stack_field and self.env.this == THIS:
            return
        sub = self.call_effects(n)
        if sub is not None:
            self.eff.merge(sub, (self.fn, n, self.is_must(n)))
            return
        if obj is None:
            return
        objp = self.obj_paths(n)
        if name in _APPEND:
            deps = set()
            for a in args:
                deps |= self.deps(a)
            self.store({p + ("[]",) for p in objp}, deps, "push", n, args[-1].get("t") if args else None)
            return
        if name in ("clear", "erase", "resize") and not args:
            self.store(objp, {("const", "<%s>" % name)}, "reset", n, obj.get("t"))
            return
        if not args:
            return                                   # a query (begin(), empty(), size(), getX())
        for i, a in enumerate(args):
            self.store({p + (("call", name, i),) for p in objp}, self.deps(a), "call", n, None)


# =========================================================================== evaluation along the element paths

def _bool_param(fn):
    ps = [p for p in fn.params if (p.get("t") or "").strip() == "bool"]
    if len(fn.params) != 1 or not ps:
        raise AnalysisBroken("handler %s does not have the signature (bool start)" % fn.key)
    return ps[0]["decl"]


class PathEval:
    def __init__(self, ctx, M, P, xsd):
        self.ctx, self.M, self.P, self.xsd = ctx, M, P, xsd
        self.ev = Evaluator(M)
        self.fx = M.fx
        self.env_of = {}
        self.start_eff = {}
        self.end_eff = {}
        self.attr_eff = {}        # (path, attribute) -> Effects
        self.ctor_eff = None

    def fn(self, key):
        f = self.fx.functions.get(key)
        if f is None:
            raise AnalysisBroken("handler %s is not in the fact base" % key)
        self.ctx.saw(f)
        return f

    def prepass(self):
        """flow-insensitive pointees of pointer members; members assigned outside start branches"""
        M, ev = self.M, self.ev
        handlers = set()
        for tuples in self.P.start.values():
            for s, h, s2, pushed in tuples:
                handlers.update(x for x in (h, pushed) if x)
        self.handlers = handlers
        for rnd in range(2):
            ptsto, end_set = {}, set()
            ev.memo.clear()
            for f in self.fx.methods_of(M.cls):
                if f.body is None:
                    continue
                if f.key in handlers:
                    d = _bool_param(f)
                    runs = [(ev.run(f, Env(), {d: 1}), True), (ev.run(f, Env(), {d: 0}), False)]
                else:
                    runs = [(ev.run(f, Env()), False)]
                for eff, is_start in runs:
                    for m, ps in eff.ptr_sets:
                        ptsto.setdefault(m, set()).update(p for p in ps if p[0] != "?")
                        if not is_start:
                            end_set.add(m)
                    for m, v in eff.const_sets:
                        if not is_start:
                            end_set.add(m)
                    for st in eff.stores:
                        if not is_start and st.kind == "incr" and len(st.dst) == 2 and st.dst[0] == "this":
                            end_set.add(st.dst[1])
            M.ptsto, M.end_set = ptsto, end_set
        ev.memo.clear()
        # the constructor (and what it calls): initial values of scratch members
        ctor = Effects()
        for f in self.fx.methods_of(M.cls):
            if f.name == M.cls.rsplit("::", 1)[-1] and f.body is not None:
                ctor.merge(ev.run(f, Env()))
        self.ctor_eff = ctor

    def run(self):
        self.prepass()
        M, ev, P = self.M, self.ev, self.P
        tag_c = M.tag_fn.params[0]["decl"]
        for path in sorted(P.decl, key=lambda p: (len(p), p)):
            if path not in P.start:
                continue
            par = self.env_of.get(path[:-1], Env()) if len(path) > 1 else Env()
            if len(path) > 1 and path[:-1] not in self.env_of:
                continue
            name = path[-1]
            tot = Effects()
            tot.merge(ev.run(M.tag_fn, par.copy(tag=name, state=None), {tag_c: name}, {tag_c: frozenset({("tag",)})}))
            sets_c, sets_p = {}, {}
            for s, h, s2, pushed in sorted(P.start[path], key=str):
                hf = self.fn(h)
                e = ev.run(hf, par.copy(tag=name, state=s), {_bool_param(hf): 1})
                tot.merge(e)
                for m, v in e.const_sets:
                    sets_c.setdefault(m, set()).add(v)
                for m, ps in e.ptr_sets:
                    sets_p.setdefault(m, set()).add(ps)
            self.start_eff[path] = tot
            members, ptr = dict(par.members), dict(par.ptr)
            for m, vs in sets_c.items():
                if m in M.end_set:
                    continue
                if len(vs) == 1 and None not in vs:
                    members[m] = next(iter(vs))
                else:
                    members.pop(m, None)
            for m, pss in sets_p.items():
                if m in M.end_set:
                    continue
                if len(pss) == 1 and not any(p[0] == "?" for p in next(iter(pss))):
                    ptr[m] = next(iter(pss))
                else:
                    ptr.pop(m, None)
            env = Env(THIS, None, name, None, members, ptr)
            self.env_of[path] = env
            tot_e = Effects()
            for s, h, s2 in sorted(P.end.get(path, ()), key=str):
                hf = self.fn(h)
                tot_e.merge(ev.run(hf, env.copy(state=s), {_bool_param(hf): 0}))
            self.end_eff[path] = tot_e

    def attr_run(self, path, attr):
        k = (path, attr)
        if k not in self.attr_eff:
            par = self.env_of.get(path[:-1], Env()) if len(path) > 1 else Env()
            tot = Effects()
            for s, h, s2, pushed in sorted(self.P.start[path], key=str):
                hf = self.fn(h)
                tot.merge(self.ev.run(hf, par.copy(tag=path[-1], state=s, attrname=attr), {_bool_param(hf): 1}))
            self.attr_eff[k] = tot
        return self.attr_eff[k]

    def all_effects(self):
        for d in (self.start_eff, self.end_eff, self.attr_eff):
            for k, e in d.items():
                yield k, e


# =========================================================================== writer: payload operands

_PIECE = re.compile(r"(</?)([A-Za-z_][\w.\-]*)?|(/?>)|(?:(?<=\s)|^)([A-Za-z_][\w\-:]*)=\"|(\")|([^<>\"\s]+|\s+)")


class WriterModel:
    def __init__(self):
        self.leaves = {}     # element name -> [(set of kinds, where, function)]
        self.attrs = {}      # (element name or None, attribute) -> [(set of kinds, where)]
        self.empties = {}    # element name -> where
        self.sites = 0


def _operand_kind(op):
    n = op
    while n is not None and n.get("k") in _CASTS and n.get("castKind") not in ("IntegralToFloating", "FloatingToIntegral") \
            and n.get("c"):
        n = n["c"][0]
    if n.get("k") == "StringLiteral":
        return "const"
    k = type_kind(op.get("t"))
    if k == "bool":
        return "int"
    return k


def writer_model(ctx, fx, T):
    """What the adjustment-XML writers put between <name> and </name> (and into attributes): the kind of
    every payload operand, from the type of the inserted expression."""
    files = set()
    for w in T["writers"]:
        fx.fn(w["class"] + "::" + w["entry"])
        files |= {f.file for f in fx.methods_of(w["class"])}
    scope = [f for f in fx.functions.values() if f.file in files and f.body is not None and f.cls]
    S = fsm2._Strings(fx, scope)
    W = WriterModel()

    def names_of(f, op):
        n = op
        while n.get("k") in _CASTS and n.get("c"):
            n = n["c"][0]
        if n.get("k") == "DeclRefExpr" and n["ref"].get("dk") == "parm":
            idx = [i for i, p in enumerate(f.params) if p["decl"] == n["ref"]["decl"]]
            out = set()
            for g in scope:
                for call in g.calls():
                    if call.get("calleeKey") == f.key and idx and idx[0] < len(F.call_args(call)):
                        out |= S.of(g, F.call_args(call)[idx[0]])
            return out or {None}
        return S.of(f, op)

    for f in sorted(scope, key=lambda x: x.key):
        chains, inner = [], set()
        for n in f.walk():
            ops = fsm2._flatten_stream(n)
            if ops is not None and n["id"] not in inner:
                chains.append(ops)
                cur = n
                while True:
                    c = cur.get("c") or []
                    if len(c) == 3 and c[1].get("k") == "CXXOperatorCallExpr" and c[1].get("op") == "<<":
                        inner.add(c[1]["id"])
                        cur = c[1]
                    else:
                        break
        if not chains:
            continue
        st = {"open": None, "cur": None, "attr": None, "want": None, "last_open": None}

        def finish_leaf(names, where):
            cur = st["cur"]
            st["cur"] = None
            if cur is None or not (cur["names"] & names):
                return
            kinds = set()
            for p in cur["payload"]:
                kinds.add("const" if p[0] == "text" else (_operand_kind(p[1]) or "?"))
            if not kinds:
                return
            W.sites += 1
            for nm in cur["names"] & names:
                W.leaves.setdefault(nm, []).append((kinds, cur["where"], f.short))

        def finish_attr(where):
            a = st["attr"]
            st["attr"] = None
            if a is None:
                return
            kinds = set()
            for p in a["payload"]:
                kinds.add("const" if p[0] == "text" else (_operand_kind(p[1]) or "?"))
            if kinds == {"const"} and len({p[1] for p in a["payload"] if p[1].strip()}) > 1:
                kinds = {"text"}        # one of several literals: the choice is information
            els = a["elem"] or {None}
            for el in els:
                W.attrs.setdefault((el, a["name"]), []).append((kinds, a["where"]))

        for ops in chains:
            for o in ops[1:] if ops and ops[0].get("k") != "StringLiteral" else ops:
                lit = o
                while lit is not None and lit.get("k") in _CASTS and lit.get("c"):
                    lit = lit["c"][0]
                where = f.where(o)
                if lit is not None and lit.get("k") == "StringLiteral":
                    text = lit.get("v") or ""
                    text = re.sub(r"<\?.*?\?>|<!--.*?-->", " ", text, flags=re.S)
                    if "<" not in text and ">" not in text and "\"" not in text and "=" not in text \
                            and st["cur"] is None and st["attr"] is None and st["open"] is None:
                        continue
                    ctx.saw(f)
                    for m in _PIECE.finditer(text):
                        lt, name, gt, attr, quote, other = m.groups()
                        if lt:
                            close = lt == "</"
                            if name is None:
                                if text[m.end():].strip():
                                    continue            # a bare '<' inside text
                                st["want"] = "close" if close else "open"
                                continue
                            if close:
                                finish_leaf({name}, where)
                            else:
                                st["cur"] = None        # the enclosing element has element content
                                st["open"] = {name}
                                st["last_open"] = {name}
                        elif gt:
                            if st["open"] is not None:
                                if gt == "/>":
                                    for nm in st["open"]:
                                        W.empties.setdefault(nm, where)
                                else:
                                    st["cur"] = {"names": set(st["open"]), "payload": [], "where": where}
                                st["open"] = None
                        elif attr:
                            if st["open"] is not None:
                                st["attr"] = {"name": attr, "elem": set(st["open"]), "payload": [], "where": where}
                        elif quote:
                            finish_attr(where)
                        elif other is not None:
                            if st["attr"] is not None:
                                st["attr"]["payload"].append(("text", other))
                            elif st["cur"] is not None and other.strip():
                                st["cur"]["payload"].append(("text", other))
                    continue
                # a non-literal operand
                if st["want"] is not None:
                    names = names_of(f, o)
                    if None in names or not names:
                        raise AnalysisBroken("%s: the element name written after '<' is not a literal" % where)
                    names = {re.match(r"[A-Za-z_][\w.\-]*", v).group(0) for v in names
                             if re.match(r"[A-Za-z_][\w.\-]*", v)}
                    if st["want"] == "close":
                        finish_leaf(names, where)
                    else:
                        st["cur"] = None
                        st["open"] = names
                    st["want"] = None
                    continue
                t = o.get("t") or ""
                if "(" in t and ")" in t and "std::" in t and "basic_ostream" in t:
                    continue                                   # a manipulator (endl, setw(..))
                if st["attr"] is not None:
                    st["attr"]["payload"].append(("op", o))
                elif st["cur"] is not None:
                    st["cur"]["payload"].append(("op", o))
    return W


# =========================================================================== flows from scratch to the results

class Flow:
    def __init__(self, PE):
        self.PE = PE
        self._memo = {}
        self._info = {}
        self._all = None

    def all_stores(self):
        if self._all is None:
            self._all = []
            seen = set()
            for key, eff in list(self.PE.all_effects()) + [(("<ctor>",), self.PE.ctor_eff)]:
                path = key[0] if key and isinstance(key[0], tuple) else key
                for st in eff.stores:
                    if st.ident() not in seen:
                        seen.add(st.ident())
                        self._all.append((path, st))
        return self._all

    @staticmethod
    def _dominates(a, b):
        """store a is executed before store b on every path (both seen from the same evaluated function)"""
        return a.site[0].key == b.site[0].key and a.site[1] is not None and b.site[1] is not None \
            and a.site[1]["id"] != b.site[1]["id"] and a.site[0].cfg.dominates(a.site[1], b.site[1])

    def copies(self, S, eff, ancestor):
        """destinations the value at scratch location S is copied / folded into by the stores of eff"""
        out = []
        for st in eff.stores:
            if st.kind == "drop":
                continue
            for q in st.locs():
                if len(q) > len(S) or S[:len(q)] != q:
                    continue
                pure = st.kind in ("assign", "push") and st.locs() == {q} and not st.pay() \
                    and not any(a[0] in ("derived", "tag", "const") for a in st.deps)
                new = st.dst + S[len(q):] if pure else st.dst
                if new == S or new[0] == "?":
                    continue
                if ancestor:
                    killed = False
                    for k in eff.stores:
                        if k is st or k.kind in ("incr", "drop") or len(k.dst) > len(S) or S[:len(k.dst)] != k.dst:
                            continue
                        if any(S[:len(x)] == x for x in k.locs()):
                            continue
                        if self._dominates(k, st):
                            killed = True
                    if killed:
                        continue
                out.append(new)
        return out

    def resolve(self, S, path, _seen=None):
        """fields of the results object that the value stored at S (by a handler of `path`) ends up in"""
        if S[0] == "R":
            return {S}
        if S[0] not in ("this", "l"):
            return set()
        k = (S, path)
        if k in self._memo:
            return self._memo[k]
        _seen = _seen or set()
        if k in _seen:
            return set()
        _seen = _seen | {k}
        res = set()
        for i in range(len(path), 0, -1):
            eff = self.PE.end_eff.get(path[:i])
            if eff is None:
                continue
            for new in self.copies(S, eff, i < len(path)):
                res |= self.resolve(new, path[:i], _seen)
            if res:
                break
        if not res and S[0] == "this":
            for pth, eff in list(self.PE.end_eff.items()) + list(self.PE.start_eff.items()):
                if pth[:len(path)] == path or path[:len(pth)] == pth:
                    continue
                for new in self.copies(S, eff, False):
                    res |= self.resolve(new, pth, _seen)
        self._memo[k] = res
        return res

    # ---- does a location carry information of the document
    def info(self, S, _seen=None):
        if S in self._info:
            return self._info[S]
        _seen = _seen or set()
        if S in _seen:
            return False
        _seen = _seen | {S}
        consts, res = set(), False
        for pth, st in self.all_stores():
            d = st.dst
            if st.kind == "drop":
                continue
            rel = None
            if d == S or (len(d) < len(S) and S[:len(d)] == d):
                rel = S[len(d):]
            elif len(d) > len(S) and d[:len(S)] == S:
                rel = ()
            if rel is None:
                continue
            if st.pay() or any(a[0] == "tag" for a in st.deps) or st.kind == "incr":
                res = True
                break
            consts |= st.consts()
            for q in st.locs():
                pure = st.locs() == {q} and st.kind in ("assign", "push")
                if self.info(q + (rel if pure else ()), _seen):
                    res = True
                    break
            if res:
                break
        if not res and len(consts) > 1:
            res = True
        self._info[S] = res
        return res
