"""R-RB: loss-free read-back of the adjustment XML (property C12).

Writer  LocalNetworkXML / WriteXMLVisitor / XMLerror      (lib/gnu_gama/xml/localnetworkxml.cpp, local/xmlerror.cpp)
Reader  LocalNetworkAdjustmentResults::Parser              (tagfun[state][tag] handlers, handler stack)
Data    LocalNetworkAdjustmentResultsData
Users   GamaLocalDeformation, CompareXYZ

Everything is static.  The reader's automaton is the one extracted by fsm2.extract_lnar (constructor
interpretation + state propagation); this module walks it along the element tree of
xml/gama-local-adjustment.xsd (parent/child relation only - the automaton itself decides the order) and,
for every element path, evaluates the start and the end handler abstractly: reachable CFG blocks under the
known values (`start`, the parser state, the tag name, context members set by the start handlers of the
ancestors such as `coordinates_summary_stage` or `pointlist`), and in them every store

        destination access path  <-  set of sources (payload through get_int/get_float/get_string/raw
                                     character data, attribute value, tag name, other locations, constants)

Helpers of the parser and small record methods (Point::clear, XMLerror::setDescription) are entered with
their parameters bound, so "storing through a helper" is the same store.  Destinations are access paths
rooted at the results object (`R.adjusted_points[].x`) or at the parser (`this.tmp_point.x`, scratch);
scratch destinations are followed through the end handlers of the enclosing elements (whole-object copies
`pointlist->push_back(tmp_point)` map field to field) until they reach the results object.

  RB1  every payload leaf / attribute the writer emits is stored into the results data
  RB2  sibling leaf tags feed different fields; one field is not fed from different parents
  RB3  writer operand kind <= reader conversion <= field type in int < float < word = token < text
       (token: a reader that keeps one blank-separated word; word: text known to be free of blanks)
  RB4  scratch fields of a record are written before the record is pushed on every valid path, or reset
       per record
  RB5  fields read by the consumers are fields the reader stores document information into; the
       position counter that numbers the rows of the covariance matrix advances once per stored coordinate
       / orientation and is reset where the numbering starts
"""
import os
import re
import xml.etree.ElementTree as ET

import facts as F
from facts import AnalysisBroken, walk, is_call, strip_targs, short
import engine
import fsm
import fsm2
from fsm import TOP

RULE = "R-RB"
XS = "{http://www.w3.org/2001/XMLSchema}"

_TABLE = None


def table():
    global _TABLE
    if _TABLE is None:
        _TABLE = engine.load_table("rb.json")
    return _TABLE


# =========================================================================== XSD content model

class XsdModel:
    """Element tree of the schema with occurrence information: children of an element declaration,
    the children that occur in *every* valid content (mandatory), leaf kind, attributes."""

    INT = {"int", "integer", "nonNegativeInteger", "positiveInteger", "long", "short", "unsignedInt",
           "unsignedLong", "negativeInteger", "nonPositiveInteger", "byte", "unsignedByte", "unsignedShort"}
    FLOAT = {"double", "float", "decimal"}

    def __init__(self, path):
        if not os.path.exists(path):
            raise AnalysisBroken("schema %s not found" % path)
        try:
            self.root = ET.parse(path).getroot()
        except ET.ParseError as e:
            raise AnalysisBroken("schema %s is not well-formed: %s" % (path, e))
        self.gelems = {e.get("name"): e for e in self.root.findall(XS + "element")}
        self.gtypes = {e.get("name"): e for e in self.root.findall(XS + "complexType")}
        self.stypes = {e.get("name"): e for e in self.root.findall(XS + "simpleType")}
        self.ggroups = {e.get("name"): e for e in self.root.findall(XS + "group")}

    @staticmethod
    def _local(q):
        return q.split(":")[-1] if q else q

    def decl(self, name):
        e = self.gelems.get(name)
        if e is None:
            raise AnalysisBroken("schema: element %s is not declared" % name)
        return e

    def _resolve(self, e):
        if e.get("ref"):
            return self.decl(self._local(e.get("ref")))
        return e

    def _type_node(self, e):
        """complexType node of an element declaration (inline or named), or None"""
        t = self._local(e.get("type"))
        if t in self.gtypes:
            return self.gtypes[t]
        return e.find(XS + "complexType")

    def _particles(self, node, depth=0):
        """content particles below a complexType / group: nested tuples
        ('elem', name, decl, min) | ('seq'|'choice', min, [particles])"""
        if depth > 30:
            raise AnalysisBroken("schema: recursive content model")
        out = []
        for ch in node:
            tag = ch.tag
            mn = int(ch.get("minOccurs", "1"))
            if tag == XS + "element":
                d = self._resolve(ch)
                out.append(("elem", d.get("name"), d, mn))
            elif tag in (XS + "sequence", XS + "all"):
                out.append(("seq", mn, self._particles(ch, depth + 1)))
            elif tag == XS + "choice":
                out.append(("choice", mn, self._particles(ch, depth + 1)))
            elif tag == XS + "group" and ch.get("ref"):
                g = self.ggroups.get(self._local(ch.get("ref")))
                if g is None:
                    raise AnalysisBroken("schema refers to an undeclared group %s" % ch.get("ref"))
                out.append(("seq", mn, self._particles(g, depth + 1)))
            elif tag in (XS + "complexContent", XS + "simpleContent", XS + "extension", XS + "restriction"):
                out.extend(self._particles(ch, depth + 1))
            elif tag in (XS + "any", XS + "anyAttribute"):
                raise AnalysisBroken("schema uses xs:any - the content is open")
        return out

    def content(self, e):
        tn = self._type_node(e)
        return self._particles(tn) if tn is not None else []

    def children(self, e):
        """{child name: declaration}"""
        out = {}

        def rec(ps):
            for p in ps:
                if p[0] == "elem":
                    out.setdefault(p[1], p[2])
                else:
                    rec(p[2])
        rec(self.content(e))
        return out

    def mandatory(self, e):
        """names of the children present in every valid content of e"""
        def rec(p):
            if p[0] == "elem":
                return {p[1]} if p[3] >= 1 else set()
            kind, mn, ps = p
            if mn < 1:
                return set()
            sets = [rec(q) for q in ps]
            if not sets:
                return set()
            if kind == "seq":
                return set().union(*sets)
            return set.intersection(*sets)
        res = set()
        for p in self.content(e):
            res |= rec(p)
        return res

    def choices(self, e):
        """lists of element names that are alternatives of one xs:choice of e"""
        out = []

        def rec(ps):
            for p in ps:
                if p[0] == "choice":
                    names = [q[1] for q in p[2] if q[0] == "elem"]
                    if len(names) > 1:
                        out.append(names)
                if p[0] != "elem":
                    rec(p[2])
        rec(self.content(e))
        return out

    def attributes(self, e):
        tn = self._type_node(e)
        out = []
        if tn is not None:
            for a in tn.iter(XS + "attribute"):
                if a.get("use") != "prohibited":
                    out.append(a.get("name") or self._local(a.get("ref")))
        return out

    def leaf_kind(self, e):
        """'int' | 'float' | 'text' for an element with simple content, 'empty' for an empty element,
        None for an element with element children"""
        if self.children(e):
            return None
        t = self._local(e.get("type"))
        st = e.find(XS + "simpleType")
        if t is None and st is None:
            tn = self._type_node(e)
            if tn is not None and tn.find(XS + "simpleContent") is None:
                return "empty"
            return "text"
        seen = 0
        while t in self.stypes and seen < 10:
            r = self.stypes[t].find(XS + "restriction")
            t = self._local(r.get("base")) if r is not None else None
            seen += 1
        if t is None and st is not None:
            r = st.find(XS + "restriction")
            t = self._local(r.get("base")) if r is not None else None
        if t in self.INT:
            return "int"
        if t in self.FLOAT:
            return "float"
        return "text"


# =========================================================================== reader: element paths

class ReaderPaths:
    """Element paths (tuples of element names below the root) that the reader's automaton accepts,
    restricted to the parent/child relation of the schema, with the handlers that serve them."""

    def __init__(self):
        self.start = {}     # path -> {(state before, start handler key, state after, pushed end handler key)}
        self.end = {}       # path -> {(state at the end tag, end handler key, state after)}
        self.decl = {}      # path -> schema declaration
        self.refused = {}   # path -> reason (schema path that no start transition accepts)


def reader_paths(ctx, xsd, A, tb, disp, tmap, root_name):
    P = ReaderPaths()
    table_ = tb.tables[disp]
    end_cache = {}

    def end_items(s, top):
        k = (s, top)
        if k not in end_cache:
            end_cache[k] = A.end_fn(s, top)
        return end_cache[k]

    def hkey(h):
        return h[1] if isinstance(h, tuple) and len(h) > 1 and h[0] == "f" else None

    seen = set()
    work = [(A.start_state, (), (), ())]        # state, handler stack, names, declarations
    root_decl = xsd.decl(root_name)
    while work:
        s, hs, names, decls = work.pop()
        if (s, hs, names) in seen:
            continue
        seen.add((s, hs, names))
        if len(names) > 12:
            raise AnalysisBroken("adjustment XML: element nesting deeper than 12")
        kids = {root_name: root_decl} if not names else xsd.children(decls[-1])
        for c, d in sorted(kids.items()):
            path = names + (c,)
            P.decl.setdefault(path, d)
            if c not in tmap:
                P.refused.setdefault(path, "the reader's tag() does not know <%s>" % c)
                continue
            t = tmap[c][1]
            h = hkey(table_.get((s, t)))
            for tok, ops in A._start(s, t):
                if tok == TOP:
                    raise AnalysisBroken("LNAR parser: start of <%s> in state %s leaves the state unknown"
                                         % (c, A.sname(s)))
                if tok[1] == A.error or tok[2] == "escaped":
                    continue
                pushed = [op[1] for op in ops if op[0] == "push"]
                if len(pushed) != 1 or any(op[0] == "pop" for op in ops):
                    continue        # stack discipline is R-FSM's clause (LNARparser:push:*)
                P.start.setdefault(path, set()).add((s, h, tok[1], hkey(pushed[0])))
                work.append((tok[1], hs + (pushed[0],), path, decls + (d,)))
        if names:
            top = hs[-1]
            for tok, ops in end_items(s, top):
                if tok == TOP:
                    raise AnalysisBroken("LNAR parser: end of <%s> in state %s leaves the state unknown"
                                         % (names[-1], A.sname(s)))
                if tok[1] == A.error or tok[2] == "escaped":
                    continue
                P.end.setdefault(names, set()).add((s, hkey(top), tok[1]))
                work.append((tok[1], hs[:-1], names[:-1], decls[:-1]))
    return P


# =========================================================================== abstract handler evaluation

R = ("R",)            # root of the results object
THIS = ("this",)      # root of the parser object (scratch)

_CASTS = ("CXXStaticCastExpr", "CStyleCastExpr", "CXXFunctionalCastExpr", "ImplicitCastExpr",
          "CXXReinterpretCastExpr", "CXXConstCastExpr")
_STMT_PARENTS = ("CompoundStmt", "IfStmt", "ForStmt", "WhileStmt", "DoStmt", "CaseStmt", "DefaultStmt",
                 "SwitchStmt", "LabelStmt", "CXXForRangeStmt", None)
_APPEND = ("push_back", "emplace_back", "push", "insert", "push_front", "emplace", "append", "operator+=")
_ELEM = ("begin", "end", "back", "front", "at", "operator[]", "operator()", "data", "cbegin", "cend",
         "operator*", "operator->")
_INT_T = ("int", "unsigned int", "long", "unsigned long", "short", "unsigned short", "long long",
          "unsigned long long", "char", "unsigned char", "signed char")
_FLT_T = ("double", "float", "long double")


def type_kind(t):
    """payload kind a value of C++ type t can hold without loss: int < float < text; bool apart"""
    t = (t or "").replace("const ", "").replace("&", "").strip()
    if t == "bool":
        return "bool"
    if t in _INT_T or t.startswith("enum "):
        return "int"
    if t in _FLT_T:
        return "float"
    if t.startswith("std::basic_string<char") or t in ("char *", "const char *", "std::string"):
        return "text"
    return None


# word: text known to be free of blanks; token: a reader that keeps one blank-separated word of the text
def _unconst(t):
    """type text without top-level cv qualifiers at the end (`count *const` -> `count *`)"""
    t = (t or "").strip()
    while True:
        t2 = re.sub(r"\s*\b(const|volatile)$", "", t).strip()
        if t2 == t:
            return t
        t = t2


_ORDER = {"int": 0, "float": 1, "word": 2, "token": 2, "text": 3, "raw": 3}


class Store:
    __slots__ = ("dst", "deps", "kind", "node", "fn", "dst_t", "where", "must", "site")

    def __init__(self, dst, deps, kind, node, fn, dst_t, must=False, site=None):
        self.dst, self.deps, self.kind, self.node, self.fn, self.dst_t = dst, frozenset(deps), kind, node, fn, dst_t
        self.where = fn.where(node) if node is not None else fn.where()
        self.must = must                    # executed on every path through the evaluated function
        self.site = site or (fn, node)      # statement of the outermost evaluated function it belongs to

    def lifted(self, fn, call_node, call_must):
        """the same store seen from a caller: it happens at the call site"""
        return Store(self.dst, self.deps, self.kind, self.node, self.fn, self.dst_t,
                     self.must and call_must, (fn, call_node))

    def ident(self):
        return (self.dst, self.deps, self.kind, self.fn.key, self.node["id"] if self.node else None,
                self.site[0].key, self.site[1]["id"] if self.site[1] else None, self.must)

    def pay(self):
        return {a for a in self.deps if a[0] in ("pay", "attr")}

    def locs(self):
        return {a[1] for a in self.deps if a[0] == "loc"}

    def consts(self):
        return {a[1] for a in self.deps if a[0] == "const"}

    def __repr__(self):
        return "%s <- %s (%s)" % (fmt_path(self.dst), sorted(map(fmt_atom, self.deps)), self.kind)


def fmt_path(p):
    out = ""
    for x in p:
        if x == "[]":
            out += "[]"
        elif isinstance(x, tuple):
            out += ("." if out else "") + "<%s>" % ":".join(map(str, x))
        else:
            out += ("." if out else "") + str(x)
    return out


def fmt_atom(a):
    if a[0] == "loc":
        return "loc " + fmt_path(a[1])
    return " ".join(str(x) for x in a)


class Effects:
    def __init__(self):
        self.stores = []
        self.ptr_sets = []       # (member, frozenset(paths))
        self.const_sets = []     # (member, value)
        self.opaque = []         # text: payload handed to code the evaluation does not model
        self.undecided = set()   # members a branch condition depended on without a known value
        self.rets = set()
        self.ret_locs = set()    # locations a returned pointer / reference denotes
        self.fns = set()

    def merge(self, other, lift=None):
        have = {st.ident() for st in self.stores}
        for st in other.stores:
            st2 = st if lift is None else st.lifted(*lift)
            if st2.ident() not in have:
                have.add(st2.ident())
                self.stores.append(st2)
        self.ptr_sets.extend(other.ptr_sets)
        self.const_sets.extend(other.const_sets)
        self.opaque.extend(other.opaque)
        self.undecided |= other.undecided
        self.fns |= other.fns


class Env:
    """What is known when a handler runs: receiver path, parser state, tag name, attribute name,
    constant context members, pointees of context pointers."""

    def __init__(self, this=THIS, state=None, tag=None, attrname=None, members=None, ptr=None):
        self.this = this
        self.state = state
        self.tag = tag
        self.attrname = attrname
        self.members = dict(members or {})
        self.ptr = dict(ptr or {})

    def key(self):
        return (self.this, self.state, self.tag, self.attrname, tuple(sorted(self.members.items(), key=str)),
                tuple(sorted((k, tuple(sorted(v))) for k, v in self.ptr.items())))

    def copy(self, **kw):
        e = Env(self.this, self.state, self.tag, self.attrname, self.members, self.ptr)
        for k, v in kw.items():
            setattr(e, k, v)
        return e


class Model:
    """Static description of the reader class, found structurally (no member is looked up by name)."""

    def __init__(self, ctx, X, tb, disp, A):
        fx = ctx.facts
        T = X["T"]
        self.fx = fx
        self.cls = T["class"]
        self.hier = {self.cls, "GNU_gama::CoreParser", "GNU_gama::BaseParser"}
        rec = fx.cls(self.cls)
        self.field_t = {f["name"]: f["t"] for f in rec["fields"]}
        self.disp = disp
        self.error_value = A.error
        # pointer to the results object: the member whose pointee class derives from the results data class
        data_cls = table()["results_data_class"]
        fx.cls(data_cls)
        self.results_ptr = None
        for name, t in self.field_t.items():
            if t.endswith("*"):
                pointee = t[:-1].strip()
                if pointee == data_cls or data_cls in fx.bases_of(pointee):
                    self.results_ptr = name
                    self.results_cls = pointee
        if self.results_ptr is None:
            raise AnalysisBroken("%s has no member pointing to %s" % (self.cls, data_cls))
        # character data accumulator: the member characterDataHandler appends to
        self.data_field = None
        for n in X["data_fn"].walk():
            if n.get("k") in ("CXXOperatorCallExpr", "CompoundAssignOperator") and n.get("op") == "+=":
                lhs = n["c"][1] if n["k"] == "CXXOperatorCallExpr" else n["c"][0]
                f = fsm2._this_field(lhs)
                if f:
                    self.data_field = f
            if n.get("k") == "CXXMemberCallExpr" and short(n.get("callee") or "").split("::")[-1] in ("append", "push_back"):
                f = fsm2._this_field(F.call_object(n))
                if f:
                    self.data_field = f
        if self.data_field is None:
            raise AnalysisBroken("characterDataHandler of %s does not append to a member" % self.cls)
        # members that receive the element name / the attribute array in startElement and tag()
        self.tag_members = set()
        self.attr_member = None
        start_fn, tag_fn = X["start_fn"], fx.fn(self.cls + "::tag")
        self.start_fn, self.tag_fn, self.end_fn = start_fn, tag_fn, X["end_fn"]
        for fn, pidx in ((start_fn, 0), (tag_fn, 0)):
            pd = fn.params[pidx]["decl"]
            for n in fn.walk():
                lhs = rhs = None
                if n.get("k") == "CXXOperatorCallExpr" and n.get("op") == "=" and len(n.get("c") or []) == 3:
                    lhs, rhs = n["c"][1], n["c"][2]
                elif n.get("k") == "BinaryOperator" and n.get("op") == "=":
                    lhs, rhs = n["c"]
                if lhs is None:
                    continue
                f = fsm2._this_field(lhs)
                if f and any(x.get("k") == "DeclRefExpr" and x["ref"].get("decl") == pd for x in walk(rhs)):
                    self.tag_members.add(f)
        if len(start_fn.params) > 1:
            ad = start_fn.params[1]["decl"]
            for n in start_fn.walk():
                if n.get("k") == "BinaryOperator" and n.get("op") == "=":
                    f = fsm2._this_field(n["c"][0])
                    if f and any(x.get("k") == "DeclRefExpr" and x["ref"].get("decl") == ad for x in walk(n["c"][1])):
                        self.attr_member = f
        if not self.tag_members:
            raise AnalysisBroken("startElement/tag of %s do not keep the element name in a member" % self.cls)
        self.stack_field = None
        for n in X["end_fn"].walk():
            if n.get("k") == "CXXMemberCallExpr" and strip_targs(n.get("callee") or "").startswith("std::stack::"):
                self.stack_field = fsm2._this_field(F.call_object(n)) or self.stack_field
        self.state_field = "state"
        # payload readers: parameterless value-returning methods that read the accumulator
        self.readers = {}
        for f in fx.methods_of(self.cls):
            if f.body is None or f.params:
                continue
            ret = (f.rec.get("ret") or "").strip()
            kind = type_kind(ret)
            if kind in (None, "bool"):
                continue
            if any(fsm2._this_field(n) == self.data_field for n in f.walk()):
                # the local the text is extracted into decides when it is narrower than the result type
                for n in f.walk():
                    if n.get("k") == "CXXOperatorCallExpr" and n.get("op") == ">>":
                        k2 = type_kind(n["c"][-1].get("t"))
                        if k2 == "text":
                            k2 = "token"      # formatted extraction into a string stops at the first blank
                        if k2 in _ORDER and _ORDER[k2] < _ORDER[kind]:
                            kind = k2
                self.readers[f.key] = kind
        if not self.readers:
            raise AnalysisBroken("%s has no payload reader (method returning a value read from %s)"
                                 % (self.cls, self.data_field))
        self.ptr_members = {n for n, t in self.field_t.items()
                            if (t.endswith("*") or "iterator" in t) and n not in (self.results_ptr, self.attr_member)
                            and "(" not in t}
        self.ptsto = {}          # flow-insensitive pointees of pointer members
        self.end_set = set()     # members assigned outside start branches (not context members)


class Evaluator:
    def __init__(self, model):
        self.M = model
        self.fx = model.fx
        self.memo = {}
        self.active = set()

    # ------------------------------------------------------------------ one function
    def run(self, fn, env, cbind=None, dbind=None, lbind=None, depth=0):
        """Effects of fn under env; cbind: param decl -> constant, dbind: param decl -> source atoms,
        lbind: param decl -> set of location paths (reference / pointer parameters)."""
        cbind, dbind, lbind = cbind or {}, dbind or {}, lbind or {}
        key = (fn.key, env.key(), tuple(sorted(cbind.items(), key=str)),
               tuple(sorted((k, tuple(sorted(v, key=str))) for k, v in dbind.items())),
               tuple(sorted((k, tuple(sorted(v))) for k, v in lbind.items())))
        if key in self.memo:
            return self.memo[key]
        if key in self.active or depth > 8:
            e = Effects()
            e.opaque.append("recursive or too deep call of %s" % fn.short)
            return e
        self.active.add(key)
        try:
            res = _FnEval(self, fn, env, cbind, dbind, lbind, depth).go()
        finally:
            self.active.discard(key)
        self.memo[key] = res
        return res


class _FnEval:
    def __init__(self, ev, fn, env, cbind, dbind, lbind, depth):
        self.ev, self.M, self.fn, self.env, self.fx = ev, ev.M, fn, env, ev.fx
        self.cbind, self.dbind, self.lbind, self.depth = cbind, dbind, lbind, depth
        self.eff = Effects()
        self.eff.fns.add(fn.key)
        self.calls = {}          # call node id -> Effects of the callee (or None)
        self.edges = {}
        self.must_blocks = set()
        self._ldeps = {}
        self._lloc = {}
        self._ldefs = None
        self.attrname_locals = None

    # ---- locals
    def _local_defs(self):
        if self._ldefs is None:
            d = {}
            for n in self.fn.walk():
                k = n.get("k")
                if k == "DeclStmt":
                    for dd in n.get("decls", []):
                        if "decl" in dd:
                            d.setdefault(dd["decl"], []).append(("init", dd.get("init"), dd.get("t")))
                elif k == "BinaryOperator" and n.get("op") == "=":
                    l = n["c"][0]
                    if l.get("k") == "DeclRefExpr" and l["ref"].get("dk") == "local":
                        d.setdefault(l["ref"]["decl"], []).append(("assign", n["c"][1], l.get("t")))
                elif k == "CXXOperatorCallExpr" and n.get("op") in ("=", "+=") and len(n.get("c") or []) == 3:
                    l = n["c"][1]
                    if l.get("k") == "DeclRefExpr" and l["ref"].get("dk") == "local":
                        d.setdefault(l["ref"]["decl"], []).append(("assign", n["c"][2], l.get("t")))
            self._ldefs = d
            # attribute-name locals: initialised from the attribute array and compared with literals
            self.attrname_locals = set()
            if self.M.attr_member:
                for decl, defs in d.items():
                    from_attr = any(x is not None and any(fsm2._this_field(y) == self.M.attr_member for y in walk(x))
                                    for _, x, _ in defs)
                    if from_attr and fsm2._string_eq_literals(self.fn, decl):
                        self.attrname_locals.add(decl)
        return self._ldefs

    def local_deps(self, decl):
        if decl in self._ldeps:
            return self._ldeps[decl]
        self._ldeps[decl] = frozenset()
        defs = self._local_defs().get(decl, [])
        if decl in self.attrname_locals:
            res = frozenset({("attrname",)})
        else:
            res = set()
            for _, x, _ in defs:
                if x is not None:
                    res |= self.deps(x)
            res = frozenset(res)
        self._ldeps[decl] = res
        return res

    def local_loc(self, decl):
        """locations a reference / pointer local is bound to (None when it is an ordinary object)"""
        if decl in self._lloc:
            return self._lloc[decl]
        self._lloc[decl] = None
        res = None
        for how, x, t in self._local_defs().get(decl, []):
            t = _unconst(t)
            if how == "init" and x is not None and (t.endswith("&") or t.endswith("*")):
                ps = self.ptrval(x) if t.endswith("*") else self.paths(x)
                res = (res or set()) | ps
        self._lloc[decl] = res
        return res

    # ---- constants (branch conditions)
    def cval(self, n):
        if n is None:
            return None
        k = n.get("k")
        c = n.get("c") or []
        if k in ("IntegerLiteral", "CXXBoolLiteralExpr", "CharacterLiteral", "StringLiteral", "FloatingLiteral"):
            v = n.get("v")
            return int(v) if isinstance(v, bool) else v
        if k == "CXXNullPtrLiteralExpr":
            return 0
        if k == "DeclRefExpr":
            r = n["ref"]
            if r.get("dk") == "enumconst":
                return r.get("v")
            if r.get("dk") == "parm":
                return self.cbind.get(r.get("decl"))
            if r.get("dk") == "local":
                self._local_defs()
                if r.get("decl") in self.attrname_locals:
                    return self.env.attrname
            return None
        if k == "MemberExpr" and n.get("mk") == "field":
            f = fsm2._this_field(n)
            if f is None or self.env.this != THIS:
                return None
            if f == self.M.state_field:
                if self.env.state is None:
                    self.eff.undecided.add(f)
                return self.env.state
            if f in self.M.tag_members:
                return self.env.tag
            if f in self.env.members:
                return self.env.members[f]
            if type_kind(self.M.field_t.get(f)) in ("int", "bool") and f not in self.M.end_set:
                self.eff.undecided.add(f)
            return None
        if k in _CASTS or (k in ("CXXConstructExpr", "CXXTemporaryObjectExpr") and len(c) == 1):
            return self.cval(c[0]) if c else None
        if k == "UnaryOperator":
            op = n.get("op")
            v = self.cval(c[0])
            if op == "!":
                return None if v is None else int(not v)
            if op == "*" and isinstance(v, str):
                return ord(v[0]) if v else 0
            if op == "-" and isinstance(v, (int, float)):
                return -v
            return None
        if k == "BinaryOperator" or (k == "CXXOperatorCallExpr" and n.get("op") in ("==", "!=")):
            op = n.get("op")
            a, b = (c[0], c[1]) if k == "BinaryOperator" else (c[1], c[2])
            if op in ("&&", "||"):
                va, vb = self.cval(a), self.cval(b)
                if op == "&&":
                    if (va is not None and not va) or (vb is not None and not vb):
                        return 0
                    return 1 if (va is not None and vb is not None) else None
                if (va is not None and va) or (vb is not None and vb):
                    return 1
                return 0 if (va is not None and vb is not None) else None
            va, vb = self.cval(a), self.cval(b)
            if va is None or vb is None or isinstance(va, str) != isinstance(vb, str):
                return None
            try:
                return {"==": int(va == vb), "!=": int(va != vb), "<": int(va < vb), "<=": int(va <= vb),
                        ">": int(va > vb), ">=": int(va >= vb)}.get(op)
            except TypeError:
                return None
        if k == "CallExpr":
            name = short(n.get("callee") or "").split("::")[-1]
            args = F.call_args(n)
            if name == "strcmp" and len(args) == 2:
                va, vb = self.cval(args[0]), self.cval(args[1])
                if isinstance(va, str) and isinstance(vb, str):
                    return 0 if va == vb else 1
            return None
        if k == "CXXMemberCallExpr":
            name = short(n.get("callee") or "").split("::")[-1]
            args = F.call_args(n)
            if name == "compare" and len(args) == 1:
                va, vb = self.cval(F.call_object(n)), self.cval(args[0])
                if isinstance(va, str) and isinstance(vb, str):
                    return 0 if va == vb else 1
            if name == "c_str" and not args:
                return self.cval(F.call_object(n))
            return None
        return None

    # ---- reachable blocks under the known values
    def reachable(self):
        cfg, nodes = self.fn.cfg, self.fn.nodes
        seen, order, work = {cfg.entry}, [], [cfg.entry]
        while work:
            b = work.pop()
            order.append(b)
            blk = cfg.blocks[b]
            raw = list(blk.get("succ", []))
            succs = [s for s in raw if s is not None and s >= 0]
            cond = nodes.get(blk["cond"]) if blk.get("cond") is not None else None
            tk = blk.get("termK")
            if cond is not None and tk == "SwitchStmt":
                v = self.cval(cond)
                if v is not None:
                    labels, default = {}, None
                    for s in succs:
                        lab = nodes.get(cfg.blocks[s].get("label")) if cfg.blocks[s].get("label") else None
                        if lab is not None and lab.get("k") == "CaseStmt" and "v" in lab:
                            labels.setdefault(lab["v"], s)
                        else:
                            default = s
                    tgt = labels.get(v, default)
                    succs = [tgt] if tgt is not None else []
            elif cond is not None and len(raw) == 2 and tk in (
                    "IfStmt", "ConditionalOperator", "BinaryOperator", "WhileStmt", "ForStmt", "DoStmt"):
                v = self.cval(cond)
                if v is not None:
                    s = raw[0] if v else raw[1]
                    succs = [s] if s is not None and s >= 0 else []
            self.edges[b] = list(succs)
            for s in succs:
                if s not in seen:
                    seen.add(s)
                    work.append(s)
        return order

    # ---- location paths
    def pointee(self, p):
        """locations a pointer-valued location p points to"""
        if p == THIS + (self.M.results_ptr,):
            return {R}
        if len(p) == 2 and p[0] == "this" and p[1] in self.M.ptr_members:
            m = p[1]
            if m in self.env.ptr:
                return set(self.env.ptr[m])
            if m in self.M.ptsto and self.M.ptsto[m]:
                if m not in self.M.end_set:
                    self.eff.undecided.add(m)
                return set(self.M.ptsto[m])
        return {("?",) + tuple(p)}

    def deref(self, p):
        """pointer members of the parser are followed; bound pointer parameters / locals already denote
        their pointees"""
        if p[0] == "this" and len(p) == 2 and (p[1] in self.M.ptr_members or p[1] == self.M.results_ptr) \
                and self.env.this == THIS:
            return self.pointee(p)
        return {p}

    def obj_paths(self, n):
        """receiver locations of a member call"""
        obj = F.call_object(n)
        ps = self.paths(obj)
        if n.get("k") == "CXXMemberCallExpr" and n["c"][0].get("arrow") and obj.get("k") != "CXXThisExpr":
            out = set()
            for p in ps:
                out |= self.deref(p)
            ps = out
        return ps

    def returned_locs(self, n):
        """locations denoted by the pointer / reference that a call into an entered helper returns
        (all return statements reachable under the known values); None when the callee is not entered
        or does not return a pointer / reference"""
        if n.get("k") not in ("CXXMemberCallExpr", "CallExpr"):
            return None
        callee = self.descendable(n)
        if callee is None:
            return None
        rt = _unconst(callee.rec.get("ret"))
        if not ((rt.endswith("*") and type_kind(rt) != "text") or rt.endswith("&")):
            return None
        sub = self.call_effects(n)
        if sub is None:
            return None
        return set(sub.ret_locs)

    def paths(self, n):
        """set of access paths the lvalue / object expression n can denote"""
        if n is None:
            return {("?",)}
        k = n.get("k")
        c = n.get("c") or []
        if k == "CXXThisExpr":
            return {self.env.this}
        if k == "MemberExpr" and n.get("mk") == "field":
            bases = self.paths(c[0]) if c else {("?",)}
            if n.get("arrow") and c and c[0].get("k") != "CXXThisExpr":
                out = set()
                for b in bases:
                    out |= self.deref(b)
                bases = out
            return {b + (n.get("member"),) for b in bases}
        if k == "DeclRefExpr":
            r = n["ref"]
            d = r.get("decl")
            if r.get("dk") == "parm":
                if d in self.lbind:
                    return set(self.lbind[d])
                return {("p", d)}
            if r.get("dk") == "local":
                ll = self.local_loc(d)
                if ll is not None:
                    return set(ll)
                return {("l", d)}
            return {("g", r.get("qn") or r.get("name"))}
        if k in _CASTS or k in ("CXXConstructExpr", "CXXTemporaryObjectExpr") and len(c) == 1:
            return self.paths(c[0]) if c else {("?",)}
        if k == "UnaryOperator":
            op = n.get("op")
            if op in ("++", "--"):
                return self.paths(c[0])
            if op == "&":
                return self.paths(c[0])
            if op == "*":
                out = set()
                for p in self.paths(c[0]):
                    out |= self.deref(p)
                return out
        if k == "ArraySubscriptExpr":
            return {p + ("[]",) for p in self.paths(c[0])}
        if k == "CXXOperatorCallExpr" and n.get("op") in ("[]", "()", "*", "->") and len(c) >= 2:
            return {p + ("[]",) for p in self.paths(c[1])}
        if k == "CXXOperatorCallExpr" and n.get("op") in ("++", "--") and len(c) >= 2:
            return self.paths(c[1])
        if k in ("CXXMemberCallExpr", "CallExpr"):
            rl = self.returned_locs(n)
            if rl is not None:
                return rl
        if k == "CXXMemberCallExpr":
            name = short(n.get("callee") or "").split("::")[-1]
            if name in _ELEM:
                return {p + ("[]",) for p in self.obj_paths(n)}
        return {("?",)}

    def ptrval(self, n):
        """locations a pointer / iterator valued expression points to"""
        k = n.get("k")
        c = n.get("c") or []
        if k in _CASTS and c:
            return self.ptrval(c[0])
        if k == "UnaryOperator" and n.get("op") == "&":
            return self.paths(c[0])
        if k == "CXXNullPtrLiteralExpr" or (k == "IntegerLiteral" and n.get("v") == 0):
            return set()
        if k in ("CXXMemberCallExpr", "CallExpr"):
            rl = self.returned_locs(n)
            if rl is not None:
                return rl
        if k == "CXXMemberCallExpr":
            name = short(n.get("callee") or "").split("::")[-1]
            if name in ("begin", "cbegin", "data", "end", "cend"):
                return {p + ("[]",) for p in self.obj_paths(n)}
        if k in ("MemberExpr", "DeclRefExpr"):
            out = set()
            for p in self.paths(n):
                out |= self.deref(p)
            return out
        return {("?",)}

    # ---- data sources of a value
    def deps(self, n):
        if n is None:
            return frozenset()
        k = n.get("k")
        c = n.get("c") or []
        M = self.M
        if k in ("IntegerLiteral", "CXXBoolLiteralExpr", "CharacterLiteral", "StringLiteral", "FloatingLiteral",
                 "CXXNullPtrLiteralExpr"):
            return frozenset({("const", repr(n.get("v")))})
        if k == "DeclRefExpr":
            r = n["ref"]
            dk = r.get("dk")
            if dk == "enumconst":
                return frozenset({("const", r.get("qn") or r.get("name"))})
            if dk == "parm":
                d = r.get("decl")
                out = set(self.dbind.get(d, ()))
                if d in self.lbind:
                    out |= {("loc", p) for p in self.lbind[d]}
                if d not in self.dbind and d not in self.lbind:
                    out.add(("parm", r.get("name")))
                return frozenset(out)
            if dk == "local":
                d = r.get("decl")
                ll = self.local_loc(d)
                if ll is not None:
                    return frozenset(("loc", p) for p in ll)
                return frozenset(self.local_deps(d) | {("loc", ("l", d))})
            if dk in ("global", "staticmember"):
                return frozenset({("const", r.get("qn") or r.get("name"))})
            return frozenset()
        if k == "MemberExpr" and n.get("mk") == "field":
            out = set()
            for p in self.paths(n):
                if p == THIS + (M.data_field,):
                    out.add(("pay", "raw"))
                elif len(p) == 2 and p[0] == "this" and p[1] in M.tag_members:
                    out.add(("tag",))
                elif p == THIS + (M.attr_member,):
                    out.add(("attr",))
                else:
                    out.add(("loc", p))
            return frozenset(out)
        if k == "CXXThisExpr":
            return frozenset()
        if k in ("CXXMemberCallExpr", "CallExpr"):
            return self._call_deps(n)
        if k == "CXXOperatorCallExpr":
            op = n.get("op")
            args = c[1:]
            out = set()
            for a in args:
                out |= self.deps(a)
            if op in ("==", "!=", "<", ">", "<=", ">="):
                out.add(("derived",))
            if op in ("=",) and len(args) == 2:
                return self.deps(args[1])
            return frozenset(out)
        if k in ("BinaryOperator", "CompoundAssignOperator"):
            op = n.get("op")
            if op == "=":
                return self.deps(c[1])
            if op == ",":
                return self.deps(c[1])
            out = set(self.deps(c[0])) | set(self.deps(c[1]))
            if op in ("==", "!=", "<", ">", "<=", ">=", "&&", "||"):
                out.add(("derived",))
            return frozenset(out)
        if k == "UnaryOperator":
            op = n.get("op")
            if op == "*":
                # value behind a pointer: the attribute array, or a pointee location
                inner = c[0]
                if any(fsm2._this_field(x) == M.attr_member for x in walk(inner)) and M.attr_member:
                    return frozenset({("attr",)})
                return frozenset(("loc", p) for p in self.paths(n))
            out = set(self.deps(c[0]))
            if op == "!":
                out.add(("derived",))
            return frozenset(out)
        if k == "ConditionalOperator" and len(c) == 3:
            return frozenset(set(self.deps(c[1])) | set(self.deps(c[2])) | ({("derived",)} if self.deps(c[0]) else set()))
        if k == "ArraySubscriptExpr":
            if M.attr_member and any(fsm2._this_field(x) == M.attr_member for x in walk(c[0])):
                return frozenset({("attr",)})
            return frozenset(("loc", p) for p in self.paths(n))
        out = set()
        for x in F.children(n):
            if isinstance(x, dict) and "k" in x:
                out |= self.deps(x)
        return frozenset(out)

    def _call_deps(self, n):
        M = self.M
        if n.get("calleeKey") in M.readers and fsm2._is_this(F.call_object(n)) and self.env.this == THIS:
            return frozenset({("pay", M.readers[n["calleeKey"]])})
        sub = self.call_effects(n)
        if sub is not None:
            return frozenset(sub.rets)
        name = short(n.get("callee") or "").split("::")[-1]
        out = set()
        obj = F.call_object(n)
        if obj is not None:
            if name in _ELEM:
                out |= {("loc", p) for p in self.paths(n)}
            else:
                out |= self.deps(obj)
        for a in F.call_args(n):
            out |= self.deps(a)
        # a conversion of raw text by a library function: the result type tells the kind
        tk = type_kind(n.get("t"))
        if ("pay", "raw") in out and tk in ("int", "float") and n.get("k") == "CallExpr":
            out.discard(("pay", "raw"))
            out.add(("pay", tk))
        return frozenset(out)

    # ---- calls
    def descendable(self, n):
        key = n.get("calleeKey")
        callee = self.fx.functions.get(key)
        if callee is None or callee.body is None or key in self.M.readers:
            return None
        ccls = strip_targs(n.get("calleeClass") or callee.cls or "")
        if n.get("k") == "CXXMemberCallExpr":
            if "<" in (n.get("calleeClass") or "") or ccls.startswith("std::"):
                return None
            if ccls in self.M.hier:
                return callee if fsm2._is_this(F.call_object(n)) or F.call_object(n) is None else None
            if callee.rec.get("inst"):
                return None
            return callee
        return None

    def call_effects(self, n):
        """Effects of a call into a function that is entered (parser helper, small record method)."""
        nid = n["id"]
        if nid in self.calls:
            return self.calls[nid]
        self.calls[nid] = None
        callee = self.descendable(n)
        if callee is None:
            return None
        args = F.call_args(n)
        cb, db, lb = {}, {}, {}
        for p, a in zip(callee.params, args):
            if a.get("k") == "CXXDefaultArgExpr":
                continue
            v = self.cval(a)
            if v is not None:
                cb[p["decl"]] = v
            t = _unconst(p.get("t"))
            if t.endswith("&") and not t.startswith("const ") or (t.endswith("*") and type_kind(t) != "text"):
                lb[p["decl"]] = frozenset(self.ptrval(a) if t.endswith("*") else self.paths(a))
                db[p["decl"]] = frozenset()
            else:
                db[p["decl"]] = self.deps(a)
        obj = F.call_object(n)
        results = []
        if obj is None or fsm2._is_this(obj):
            results.append(self.ev.run(callee, self.env, cb, db, lb, self.depth + 1))
        else:
            for p in sorted(self.obj_paths(n)):
                env = Env(this=p)
                results.append(self.ev.run(callee, env, cb, db, lb, self.depth + 1))
        tot = Effects()
        for r in results:
            tot.merge(r)
            tot.rets |= r.rets
            tot.ret_locs |= r.ret_locs
        self.calls[nid] = tot
        return tot

    # ---- statement effects
    def store(self, dsts, deps, kind, node, dst_t):
        must = self.is_must(node) and len(dsts) == 1
        for d in sorted(dsts, key=str):
            self.eff.stores.append(Store(d, deps, kind, node, self.fn, dst_t, must))

    def has_payload(self, deps):
        return any(a[0] in ("pay", "attr") for a in deps)

    def go(self):
        fn, M = self.fn, self.M
        if fn.body is None:
            return self.eff
        nodes = fn.nodes
        done = set()
        order = self.reachable()
        # blocks executed on every path of the pruned CFG: dominators of the exit block
        pred = {b: [] for b in order}
        for b, ss in self.edges.items():
            for x in ss:
                pred.setdefault(x, []).append(b)
        dom = F.CFG._dominators(fn.cfg.entry, order, pred)
        self.must_blocks = dom.get(fn.cfg.exit, set()) if fn.cfg.exit in dom else set()
        for b in order:
            for e in fn.cfg.blocks[b].get("el", []):
                if not isinstance(e, int) or e in done:
                    continue
                done.add(e)
                n = nodes.get(e)
                if n is not None:
                    self.visit(n)
        return self.eff

    def visit(self, n):
        k = n.get("k")
        c = n.get("c") or []
        M = self.M
        if k == "ReturnStmt":
            if c:
                self.eff.rets |= self.deps(c[0])
                rt = _unconst(self.fn.rec.get("ret"))
                if rt.endswith("*") and type_kind(rt) != "text":
                    self.eff.ret_locs |= self.ptrval(c[0])
                elif rt.endswith("&"):
                    self.eff.ret_locs |= self.paths(c[0])
            return
        if k == "BinaryOperator" and n.get("op") == "=":
            self.assign(n, c[0], c[1])
            return
        if k == "CXXOperatorCallExpr" and n.get("op") == "=" and len(c) == 3:
            self.assign(n, c[1], c[2])
            return
        if k == "CompoundAssignOperator" or (k == "CXXOperatorCallExpr" and n.get("op") in ("+=", "-=", "*=", "/=")
                                             and len(c) == 3):
            lhs, rhs = (c[0], c[1]) if k == "CompoundAssignOperator" else (c[1], c[2])
            dsts = self.paths(lhs)
            if self.is_ptr_member(lhs):
                return
            self.store(dsts, set(self.deps(rhs)) | {("loc", d) for d in dsts}, "incr", n, lhs.get("t"))
            return
        if k == "UnaryOperator" and n.get("op") in ("++", "--"):
            if self.is_ptr_member(c[0]) or "*" in (c[0].get("t") or ""):
                return
            dsts = self.paths(c[0])
            self.store(dsts, {("loc", d) for d in dsts} | {("const", "1" if n.get("op") == "++" else "-1")},
                       "incr", n, c[0].get("t"))
            return
        if k == "CXXMemberCallExpr":
            self.member_call(n)
            return
        if k == "CallExpr":
            sub = self.call_effects(n)
            if sub is not None:
                self.eff.merge(sub, (self.fn, n, self.is_must(n)))
                return
            par = self.fn.parent(n)
            if (par is None or par.get("k") in _STMT_PARENTS) and self.has_payload(self._call_deps(n)):
                self.eff.opaque.append("%s: payload passed to %s" % (self.fn.where(n), short(n.get("callee") or "?")))
            return

    def is_must(self, node):
        pos = self.fn.cfg.block_of(node) if node is not None else None
        return pos is not None and pos[0] in self.must_blocks

    def is_ptr_member(self, lhs):
        f = fsm2._this_field(lhs)
        return f is not None and self.env.this == THIS and f in self.M.ptr_members

    def assign(self, n, lhs, rhs):
        M = self.M
        f = fsm2._this_field(lhs) if self.env.this == THIS else None
        if f is not None and f in M.ptr_members:
            self.eff.ptr_sets.append((f, frozenset(self.ptrval(rhs))))
            return
        if f is not None and f == M.attr_member:
            return
        dsts = self.paths(lhs)
        deps = self.deps(rhs)
        if f is not None:
            v = self.cval(rhs)
            if v is not None and type_kind(M.field_t.get(f)) in ("int", "bool"):
                self.eff.const_sets.append((f, v))
            elif type_kind(M.field_t.get(f)) in ("int", "bool"):
                self.eff.const_sets.append((f, None))
        self.store(dsts, deps, "assign", n, lhs.get("t"))

    def member_call(self, n):
        M = self.M
        name = short(n.get("callee") or "").split("::")[-1]
        obj = F.call_object(n)
        args = [a for a in F.call_args(n) if a.get("k") != "CXXDefaultArgExpr"]
        if n.get("calleeKey") in M.readers and fsm2._is_this(obj):
            par = self.fn.parent(n)
            if par is None or par.get("k") in _STMT_PARENTS:
                self.eff.stores.append(Store(("dropped",), {("pay", M.readers[n["calleeKey"]])}, "drop", n, self.fn, None))
            return
        if obj is not None and fsm2._this_field(obj) == M.stack_field and self.env.this == THIS:
            return
        sub = self.call_effects(n)
        if sub is not None:
            self.eff.merge(sub, (self.fn, n, self.is_must(n)))
            return
        if obj is None:
            return
        objp = self.obj_paths(n)
        if name in _APPEND:
            deps = set()
            for a in args:
                deps |= self.deps(a)
            self.store({p + ("[]",) for p in objp}, deps, "push", n, args[-1].get("t") if args else None)
            return
        if name in ("clear", "erase", "resize") and not args:
            self.store(objp, {("const", "<%s>" % name)}, "reset", n, obj.get("t"))
            return
        if not args:
            return                                   # a query (begin(), empty(), size(), getX())
        for i, a in enumerate(args):
            self.store({p + (("call", name, i),) for p in objp}, self.deps(a), "call", n, None)


# =========================================================================== evaluation along the element paths

def _bool_param(fn):
    ps = [p for p in fn.params if (p.get("t") or "").strip() == "bool"]
    if len(fn.params) != 1 or not ps:
        raise AnalysisBroken("handler %s does not have the signature (bool start)" % fn.key)
    return ps[0]["decl"]


class PathEval:
    def __init__(self, ctx, M, P, xsd):
        self.ctx, self.M, self.P, self.xsd = ctx, M, P, xsd
        self.ev = Evaluator(M)
        self.fx = M.fx
        self.env_of = {}
        self.start_eff = {}
        self.end_eff = {}
        self.attr_eff = {}        # (path, attribute) -> Effects
        self.ctor_eff = None

    def fn(self, key):
        f = self.fx.functions.get(key)
        if f is None:
            raise AnalysisBroken("handler %s is not in the fact base" % key)
        self.ctx.saw(f)
        return f

    def prepass(self):
        """flow-insensitive pointees of pointer members; members assigned outside start branches"""
        M, ev = self.M, self.ev
        handlers = set()
        for tuples in self.P.start.values():
            for s, h, s2, pushed in tuples:
                handlers.update(x for x in (h, pushed) if x)
        self.handlers = handlers
        for rnd in range(2):
            ptsto, end_set = {}, set()
            ev.memo.clear()
            for f in self.fx.methods_of(M.cls):
                if f.body is None:
                    continue
                if f.key in handlers:
                    d = _bool_param(f)
                    runs = [(ev.run(f, Env(), {d: 1}), True), (ev.run(f, Env(), {d: 0}), False)]
                else:
                    runs = [(ev.run(f, Env()), False)]
                for eff, is_start in runs:
                    for m, ps in eff.ptr_sets:
                        ptsto.setdefault(m, set()).update(p for p in ps if p[0] != "?")
                        if not is_start:
                            end_set.add(m)
                    for m, v in eff.const_sets:
                        if not is_start:
                            end_set.add(m)
                    for st in eff.stores:
                        if not is_start and st.kind == "incr" and len(st.dst) == 2 and st.dst[0] == "this":
                            end_set.add(st.dst[1])
            M.ptsto, M.end_set = ptsto, end_set
        ev.memo.clear()
        # the constructor (and what it calls): initial values of scratch members
        ctor = Effects()
        for f in self.fx.methods_of(M.cls):
            if f.name == M.cls.rsplit("::", 1)[-1] and f.body is not None:
                ctor.merge(ev.run(f, Env()))
        self.ctor_eff = ctor

    def run(self):
        self.prepass()
        M, ev, P = self.M, self.ev, self.P
        tag_c = M.tag_fn.params[0]["decl"]
        for path in sorted(P.decl, key=lambda p: (len(p), p)):
            if path not in P.start:
                continue
            par = self.env_of.get(path[:-1], Env()) if len(path) > 1 else Env()
            if len(path) > 1 and path[:-1] not in self.env_of:
                continue
            name = path[-1]
            tot = Effects()
            tot.merge(ev.run(M.tag_fn, par.copy(tag=name, state=None), {tag_c: name}, {tag_c: frozenset({("tag",)})}))
            sets_c, sets_p = {}, {}
            for s, h, s2, pushed in sorted(P.start[path], key=str):
                hf = self.fn(h)
                e = ev.run(hf, par.copy(tag=name, state=s), {_bool_param(hf): 1})
                tot.merge(e)
                for m, v in e.const_sets:
                    sets_c.setdefault(m, set()).add(v)
                for m, ps in e.ptr_sets:
                    sets_p.setdefault(m, set()).add(ps)
            self.start_eff[path] = tot
            members, ptr = dict(par.members), dict(par.ptr)
            for m, vs in sets_c.items():
                if m in M.end_set:
                    continue
                if len(vs) == 1 and None not in vs:
                    members[m] = next(iter(vs))
                else:
                    members.pop(m, None)
            for m, pss in sets_p.items():
                if m in M.end_set:
                    continue
                if len(pss) == 1 and not any(p[0] == "?" for p in next(iter(pss))):
                    ptr[m] = next(iter(pss))
                else:
                    ptr.pop(m, None)
            env = Env(THIS, None, name, None, members, ptr)
            self.env_of[path] = env
            tot_e = Effects()
            for s, h, s2 in sorted(P.end.get(path, ()), key=str):
                hf = self.fn(h)
                tot_e.merge(ev.run(hf, env.copy(state=s), {_bool_param(hf): 0}))
            self.end_eff[path] = tot_e

    def attr_run(self, path, attr):
        k = (path, attr)
        if k not in self.attr_eff:
            par = self.env_of.get(path[:-1], Env()) if len(path) > 1 else Env()
            tot = Effects()
            for s, h, s2, pushed in sorted(self.P.start[path], key=str):
                hf = self.fn(h)
                tot.merge(self.ev.run(hf, par.copy(tag=path[-1], state=s, attrname=attr), {_bool_param(hf): 1}))
            self.attr_eff[k] = tot
        return self.attr_eff[k]

    def all_effects(self):
        for d in (self.start_eff, self.end_eff, self.attr_eff):
            for k, e in d.items():
                yield k, e


# =========================================================================== writer: payload operands

_PIECE = re.compile(r"(</?)([A-Za-z_][\w.\-]*)?|(/?>)|(?:(?<=\s)|^)([A-Za-z_][\w\-:]*)=\"|(\")|([^<>\"\s]+|\s+)")


class WriterModel:
    def __init__(self):
        self.leaves = {}     # element name -> [(set of kinds, where, function)]
        self.attrs = {}      # (element name or None, attribute) -> [(set of kinds, where)]
        self.empties = {}    # element name -> where
        self.sites = 0


def _operand_kind(op):
    n = op
    while n is not None and n.get("k") in _CASTS and n.get("castKind") not in ("IntegralToFloating", "FloatingToIntegral") \
            and n.get("c"):
        n = n["c"][0]
    if n.get("k") == "StringLiteral":
        return "const"
    k = type_kind(op.get("t"))
    if k == "bool":
        return "int"
    if k is None:
        t = (op.get("t") or "").replace("const ", "").strip()
        if t and "(" not in t and not t.endswith("*"):
            return "text"        # a class type inserted through its own operator<< (PointID ...): characters
    return k


def _expand_operands(ops):
    """`out << (c ? "<a/>" : "<b/>")`: both literals are written (alternatively) - taken one after the other"""
    out = []
    for o in ops:
        n = o
        while n is not None and n.get("k") in _CASTS and n.get("c"):
            n = n["c"][0]
        if n is not None and n.get("k") == "ConditionalOperator" and len(n.get("c") or []) == 3:
            out.extend(_expand_operands(n["c"][1:]))
        else:
            out.append(o)
    return out


def writer_model(ctx, fx, T):
    """What the adjustment-XML writers put between <name> and </name> (and into attributes): the kind of
    every payload operand, from the type of the inserted expression."""
    files = set()
    for w in T["writers"]:
        fx.fn(w["class"] + "::" + w["entry"])
        files |= {f.file for f in fx.methods_of(w["class"])}
    scope = [f for f in fx.functions.values() if f.file in files and f.body is not None and f.cls]
    S = fsm2._Strings(fx, scope)
    W = WriterModel()
    first_round, second_round = set(), set()

    def names_of(f, op):
        n = op
        while True:
            if n.get("k") in _CASTS and n.get("c"):
                n = n["c"][0]
                continue
            if n.get("k") in ("CXXConstructExpr", "CXXTemporaryObjectExpr"):
                real = [x for x in (n.get("c") or []) if x.get("k") != "CXXDefaultArgExpr"]
                if len(real) == 1:
                    n = real[0]
                    continue
            break
        if n.get("k") == "StringLiteral":
            return {n.get("v")}
        if n.get("k") == "ConditionalOperator" and len(n.get("c") or []) == 3:
            return names_of(f, n["c"][1]) | names_of(f, n["c"][2])
        if n.get("k") == "DeclRefExpr" and n["ref"].get("dk") == "parm":
            idx = [i for i, p in enumerate(f.params) if p["decl"] == n["ref"]["decl"]]
            out = set()
            for g in scope:
                for call in g.calls():
                    if call.get("calleeKey") == f.key and idx and idx[0] < len(F.call_args(call)):
                        out |= names_of(g, F.call_args(call)[idx[0]])
            return out or {None}
        return S.of(f, n)

    scope_keys = {f.key for f in scope}
    dangling = {}        # function key -> [(attribute, kinds, where)] written without an own open start tag
    for f in sorted(scope, key=lambda x: x.key) * 2:      # second round: attributes written by called helpers
        if f.key in first_round:
            if f.key in second_round:
                continue
            second_round.add(f.key)
            if len(second_round) == 1:
                W.leaves.clear(); W.attrs.clear(); W.empties.clear(); W.sites = 0
        else:
            first_round.add(f.key)
        chains, inner, inchain = [], set(), set()
        for n in f.walk():
            ops = fsm2._flatten_stream(n)
            if ops is not None and n["id"] not in inner:
                chains.append(ops)
                inchain |= {x["id"] for x in walk(n)}
                cur = n
                while True:
                    c = cur.get("c") or []
                    if len(c) == 3 and c[1].get("k") == "CXXOperatorCallExpr" and c[1].get("op") == "<<":
                        inner.add(c[1]["id"])
                        cur = c[1]
                    else:
                        break
            elif n.get("k") in ("CallExpr", "CXXMemberCallExpr") and n["id"] not in inchain \
                    and n.get("calleeKey") in scope_keys and dangling.get(n.get("calleeKey")):
                chains.append(("call", n))
        if not chains:
            continue
        st = {"open": None, "cur": None, "attr": None, "want": None, "last_open": None}

        def finish_leaf(names, where):
            cur = st["cur"]
            st["cur"] = None
            if cur is None or not (cur["names"] & names):
                return
            kinds = set()
            for p in cur["payload"]:
                k = "const" if p[0] == "text" else (_operand_kind(p[1]) or "?")
                if k == "text":
                    vals = names_of(f, p[1])
                    if vals and None not in vals and all(v and not re.search(r"\s", v) for v in vals):
                        k = "word"            # one of a few literals without blanks
                kinds.add(k)
            if not kinds:
                return
            W.sites += 1
            for nm in cur["names"] & names:
                W.leaves.setdefault(nm, []).append((kinds, cur["where"], f.short))

        def finish_attr(where):
            a = st["attr"]
            st["attr"] = None
            if a is None:
                return
            kinds = set()
            for p in a["payload"]:
                kinds.add("const" if p[0] == "text" else (_operand_kind(p[1]) or "?"))
            if kinds == {"const"} and len({p[1] for p in a["payload"] if p[1].strip()}) > 1:
                kinds = {"text"}        # one of several literals: the choice is information
            if not a["elem"]:
                ent = (a["name"], frozenset(kinds), a["where"])
                if ent not in dangling.setdefault(f.key, []):
                    dangling[f.key].append(ent)
                return
            for el in a["elem"]:
                ent = (kinds, a["where"])
                if ent not in W.attrs.setdefault((el, a["name"]), []):
                    W.attrs[(el, a["name"])].append(ent)

        for ops in chains:
            if isinstance(ops, tuple):
                if st["open"] is not None:
                    for an, kinds, wh in dangling.get(ops[1].get("calleeKey"), []):
                        for el in st["open"]:
                            ent = (set(kinds), wh)
                            if ent not in W.attrs.setdefault((el, an), []):
                                W.attrs[(el, an)].append(ent)
                continue
            for o in _expand_operands(ops[1:] if ops and ops[0].get("k") != "StringLiteral" else ops):
                lit = o
                while lit is not None and lit.get("k") in _CASTS and lit.get("c"):
                    lit = lit["c"][0]
                where = f.where(o)
                if lit is not None and lit.get("k") == "StringLiteral":
                    text = lit.get("v") or ""
                    text = re.sub(r"<\?.*?\?>|<!--.*?-->", " ", text, flags=re.S)
                    if "<" not in text and ">" not in text and "\"" not in text and "=" not in text \
                            and st["cur"] is None and st["attr"] is None and st["open"] is None:
                        continue
                    ctx.saw(f)
                    for m in _PIECE.finditer(text):
                        lt, name, gt, attr, quote, other = m.groups()
                        if lt:
                            close = lt == "</"
                            if name is None:
                                if text[m.end():].strip():
                                    continue            # a bare '<' inside text
                                st["want"] = "close" if close else "open"
                                continue
                            if close:
                                finish_leaf({name}, where)
                            else:
                                st["cur"] = None        # the enclosing element has element content
                                st["open"] = {name}
                                st["last_open"] = {name}
                        elif gt:
                            if st["open"] is not None:
                                if gt == "/>":
                                    for nm in st["open"]:
                                        W.empties.setdefault(nm, where)
                                else:
                                    st["cur"] = {"names": set(st["open"]), "payload": [], "where": where}
                                st["open"] = None
                        elif attr:
                            if st["open"] is not None or (st["cur"] is None and st["attr"] is None):
                                st["attr"] = {"name": attr, "elem": set(st["open"] or ()), "payload": [], "where": where}
                        elif quote:
                            finish_attr(where)
                        elif other is not None:
                            if st["attr"] is not None:
                                st["attr"]["payload"].append(("text", other))
                            elif st["cur"] is not None and other.strip():
                                st["cur"]["payload"].append(("text", other))
                    continue
                # a non-literal operand
                if st["want"] is not None:
                    names = names_of(f, o)
                    if None in names or not names:
                        raise AnalysisBroken("%s: the element name written after '<' is not a literal" % where)
                    names = {re.match(r"[A-Za-z_][\w.\-]*", v).group(0) for v in names
                             if re.match(r"[A-Za-z_][\w.\-]*", v)}
                    if st["want"] == "close":
                        finish_leaf(names, where)
                    else:
                        st["cur"] = None
                        st["open"] = names
                    st["want"] = None
                    continue
                t = o.get("t") or ""
                if "(" in t and ")" in t and "std::" in t and "basic_ostream" in t:
                    continue                                   # a manipulator (endl, setw(..))
                if st["attr"] is not None:
                    st["attr"]["payload"].append(("op", o))
                elif st["cur"] is not None:
                    st["cur"]["payload"].append(("op", o))
    return W


# =========================================================================== flows from scratch to the results

class Flow:
    def __init__(self, PE, order=None):
        self.PE = PE
        self.order = order or {}
        self._memo = {}
        self._info = {}
        self._all = None

    def all_stores(self):
        if self._all is None:
            self._all = []
            seen = set()
            for key, eff in list(self.PE.all_effects()) + [(("<ctor>",), self.PE.ctor_eff)]:
                path = key[0] if key and isinstance(key[0], tuple) else key
                for st in eff.stores:
                    if st.ident() not in seen:
                        seen.add(st.ident())
                        self._all.append((path, st))
        return self._all

    @staticmethod
    def _dominates(a, b):
        """store a is executed before store b on every path (both seen from the same evaluated function)"""
        return a.site[0].key == b.site[0].key and a.site[1] is not None and b.site[1] is not None \
            and a.site[1]["id"] != b.site[1]["id"] and a.site[0].cfg.dominates(a.site[1], b.site[1])

    def copies(self, S, eff, ancestor):
        """destinations the value at scratch location S is copied / folded into by the stores of eff"""
        out = []
        for st in eff.stores:
            if st.kind == "drop":
                continue
            for q in st.locs():
                if len(q) > len(S) or S[:len(q)] != q:
                    continue
                pure = st.kind in ("assign", "push") and st.locs() == {q} and not st.pay() \
                    and not any(a[0] in ("derived", "tag", "const") for a in st.deps)
                new = st.dst + S[len(q):] if pure else st.dst
                if new == S or new[0] == "?":
                    continue
                if ancestor:
                    killed = False
                    for k in eff.stores:
                        if k is st or k.kind in ("incr", "drop") or len(k.dst) > len(S) or S[:len(k.dst)] != k.dst:
                            continue
                        if any(S[:len(x)] == x for x in k.locs()):
                            continue
                        if self._dominates(k, st):
                            killed = True
                    if killed:
                        continue
                out.append(new)
        return out

    def resolve(self, S, path, _seen=None):
        """fields of the results object that the value stored at S (by a handler of `path`) ends up in"""
        if S[0] == "R":
            return {S}
        if S[0] not in ("this", "l"):
            return set()
        k = (S, path)
        if k in self._memo:
            return self._memo[k]
        _seen = _seen or set()
        if k in _seen:
            return set()
        _seen = _seen | {k}
        res = set()
        for i in range(len(path), 0, -1):
            eff = self.PE.end_eff.get(path[:i])
            if eff is None:
                continue
            for new in self.copies(S, eff, i < len(path)):
                res |= self.resolve(new, path[:i], _seen)
            if res:
                break
        if not res and S[0] == "this":
            # a handler that runs later in the document (e.g. <band> reading what <dim> stored)
            mine = self.order.get(path)
            for pth, eff in list(self.PE.end_eff.items()) + list(self.PE.start_eff.items()):
                if pth[:len(path)] == path or path[:len(pth)] == pth:
                    continue
                if mine is None or self.order.get(pth) is None or self.order[pth] < mine:
                    continue
                for new in self.copies(S, eff, False):
                    res |= self.resolve(new, pth, _seen)
        self._memo[k] = res
        return res

    # ---- does a location carry information of the document
    def info(self, S, _seen=None):
        if S in self._info:
            return self._info[S]
        _seen = _seen or set()
        if S in _seen:
            return False
        _seen = _seen | {S}
        consts, res = set(), False
        for pth, st in self.all_stores():
            d = st.dst
            if st.kind == "drop":
                continue
            rel = None
            if d == S or (len(d) < len(S) and S[:len(d)] == d):
                rel = S[len(d):]
            elif len(d) > len(S) and d[:len(S)] == S:
                rel = ()
            if rel is None:
                continue
            if st.pay() or any(a[0] == "tag" for a in st.deps) or st.kind == "incr":
                res = True
                break
            consts |= st.consts()
            for q in st.locs():
                pure = st.locs() == {q} and st.kind in ("assign", "push")
                if self.info(q + (rel if pure else ()), _seen):
                    res = True
                    break
            if res:
                break
        if not res and len(consts) > 1:
            res = True
        self._info[S] = res
        return res


# =========================================================================== the rule

def _key(path, attr=None):
    k = "/".join(path[1:]) if len(path) > 1 else path[0]
    return k + ("@" + attr if attr else "")


def _short_cls(t):
    return strip_targs(t or "").split("::")[-1]


def _skip_dst(M, d):
    """stores that are bookkeeping of the parser itself (state, diagnostics, the accumulator)"""
    return d[0] == "this" and len(d) >= 2 and d[1] in (M.state_field, "errString", "errLineNumber", "errCode",
                                                      M.data_field) or d[0] in ("p", "g", "?", "dropped")


def rule_rb(ctx):
    fx = ctx.facts
    T = table()
    T2 = fsm2.table()["xsd_adjxml"]
    xsd = XsdModel(os.path.join(ctx.root, T2["schema"]))
    # the automaton of the reader; its own R-FSM instances belong to fsm2.rule_lnar, not to this rule
    sub = engine.Ctx(ctx.facts, ctx.root, ctx.prop, ctx.tier)
    A, sp, tb, disp, tag_fn, tmap, X = fsm2.extract_lnar(sub)
    ctx.analysed_functions |= sub.analysed_functions
    root = T2["root"]
    P = reader_paths(ctx, xsd, A, tb, disp, tmap, root)
    W = writer_model(ctx, fx, T2)
    ctx.floor(RULE, T["floors"]["writer-sites"], W.sites, "payload insertion sites of the writers")
    M = Model(ctx, X, tb, disp, A)
    PE = PathEval(ctx, M, P, xsd)
    PE.run()
    FL = Flow(PE, _doc_order(xsd, xsd.decl(root), root))
    for k in PE.ev.memo:
        f = fx.functions.get(k[0])
        if f is not None:
            ctx.saw(f)

    leaf = {p: xsd.leaf_kind(d) for p, d in P.decl.items()}
    payload_leaves = sorted(p for p, k in leaf.items() if k in ("int", "float", "text"))
    flag_leaves = sorted(p for p, k in leaf.items() if k == "empty" and not xsd.attributes(P.decl[p]))

    def imprecise(path):
        u = set()
        for i in range(1, len(path) + 1):
            for d in (PE.start_eff, PE.end_eff):
                e = d.get(path[:i])
                if e is not None:
                    u |= e.undecided
        return u

    def broken_if_imprecise(path, what):
        u = imprecise(path)
        e = PE.end_eff.get(path)
        op = (e.opaque if e is not None else []) + (PE.start_eff[path].opaque if path in PE.start_eff else [])
        if u or op:
            raise AnalysisBroken("R-RB: %s for <%s> would be reported, but the evaluation is not exact there "
                                 "(undecided context members %s, unmodelled uses %s)" % (what, _key(path), sorted(u), op[:3]))

    # ------------------------------------------------------------------ RB1 / RB3 per payload leaf
    finals = {}          # leaf path -> set of result fields
    stores_of = {}
    n1 = n3 = 0
    n2_skipped = []
    for p in payload_leaves:
        key = _key(p)
        name = p[-1]
        n1 += 1
        if name not in W.leaves:
            # vocabulary disagreement (decided by R-FSM adjxml:vocabulary) or a payload written in a form the
            # writer model does not follow: nothing can be said about the read-back of this element
            ctx.bad(RULE, "RB1:" + key, tag_fn.where(), "", msg="the schema has the leaf <%s> but no writer statement "
                    "puts a payload between <%s> and </%s>: the round trip of this element cannot be established"
                    % (key, name, name))
            n2_skipped.append(p)
            continue
        if p in P.refused or p not in P.start or p not in P.end:
            ctx.bad(RULE, "RB1:" + key, tag_fn.where(), "", msg="the schema path <%s> is never accepted by the reader "
                    "(%s): the payload the writer emits there is not read back"
                    % (key, P.refused.get(p, "no start/end transition in any state the parent can be in")))
            n2_skipped.append(p)
            continue
        eff = PE.end_eff[p]
        pay = [st for st in eff.stores if st.pay() and st.kind != "drop" and not _skip_dst(M, st.dst)]
        drops = [st for st in eff.stores if st.kind == "drop"]
        fin = set()
        for st in pay:
            fin |= FL.resolve(st.dst, p)
        finals[p], stores_of[p] = fin, pay
        hs = sorted({short(h) for _, h, _ in P.end[p]})
        where = pay[0].where if pay else (drops[0].where if drops else PE.fn(sorted(P.end[p], key=str)[0][1]).where())
        if not fin:
            broken_if_imprecise(p, "a dropped payload")
            if any(st.dst[0] == "?" for st in eff.stores if st.pay()):
                raise AnalysisBroken("R-RB: <%s>: payload stored through an expression the evaluation cannot follow" % key)
            if pay:
                msg = "the payload is stored into %s, which is never copied into the results data" % sorted(
                    {fmt_path(st.dst) for st in pay})
            elif drops:
                msg = "the end handler parses the payload (%s) and drops the value" % ", ".join(
                    sorted({a[1] for st in drops for a in st.deps if a[0] == "pay"}))
            else:
                msg = "the end handler never reads the character data of the element"
            ctx.bad(RULE, "RB1:" + key, where, ", ".join(hs), msg="<%s> is written with a payload but not read back: %s"
                    % (name, msg))
            n2_skipped.append(p)
            continue
        ctx.ok(RULE, "RB1:" + key, where, ", ".join(hs), detail={"fields": sorted(map(fmt_path, fin))})
        # RB3
        n3 += 1
        wk = set()
        for kinds, wh, wf in W.leaves[name]:
            wk |= kinds
        wk = {"text" if k == "const" else k for k in wk}
        problems = []
        unknown = "?" in wk
        wk.discard("?")
        for st in pay:
            derived = any(a[0] == "derived" for a in st.deps)
            fk = None if derived else type_kind(st.dst_t)
            for a in st.pay():
                rk = a[1] if len(a) > 1 else "text"
                for w in sorted(wk):
                    if _ORDER[w] > _ORDER[rk]:
                        problems.append("written as %s, read with the %s reader at %s%s" % (
                            w, rk, st.where, " (only the first blank-separated word of the text is kept)"
                            if rk == "token" else ""))
                    elif fk == "bool" or (fk in _ORDER and _ORDER[w] > _ORDER[fk]):
                        problems.append("written as %s, stored into a field of type %s at %s" % (w, short(st.dst_t or "?"), st.where))
        if unknown and not problems:
            raise AnalysisBroken("R-RB: payload operand of <%s> has a type the rule cannot classify" % name)
        ctx.report(RULE, "RB3:" + key, not problems, where, ", ".join(hs), msg="; ".join(sorted(set(problems))),
                   detail={"writer": sorted(wk), "reader": sorted({a[1] for st in pay for a in st.pay() if len(a) > 1}),
                           "schema": leaf[p]})

    # elements with children that the reader opens but can never close without an error: whatever record they
    # assemble is never stored (the floors of the record clauses do not apply then)
    unclosable = sorted(p for p in P.decl if leaf[p] is None and p in P.start and p not in P.end)
    for p in unclosable:
        n1 += 1
        ctx.bad(RULE, "RB1:" + _key(p), tag_fn.where(), "", msg="the reader opens <%s> but no end transition closes it "
                "without an error (a child the schema demands is refused): nothing below it is read back" % _key(p))

    # ------------------------------------------------------------------ RB1 for empty (flag) elements
    flag_store = {}
    for p in flag_leaves:
        key = _key(p)
        if p[-1] not in W.empties:
            continue
        n1 += 1
        if p not in P.start or p not in P.end:
            ctx.bad(RULE, "RB1:" + key, tag_fn.where(), "", msg="the empty element <%s> is never accepted by the reader" % key)
            continue
        sts = [st for d in (PE.start_eff[p], PE.end_eff[p]) for st in d.stores
               if st.consts() and not st.locs() and st.kind == "assign" and not _skip_dst(M, st.dst)
               and not any(a[0] == "tag" for a in st.deps)]
        got = {}
        for st in sts:
            for f in FL.resolve(st.dst, p):
                got.setdefault(f, set()).update(st.consts())
        flag_store[p] = got
        if not got:
            broken_if_imprecise(p, "an unrecorded flag element")
            ctx.bad(RULE, "RB1:" + key, PE.fn(sorted(P.end[p], key=str)[0][1]).where(), "",
                    msg="the presence of <%s> is not recorded in the results data" % p[-1])
        else:
            ctx.ok(RULE, "RB1:" + key, sts[0].where, "", detail={f: sorted(v) for f, v in
                                                                 ((fmt_path(a), b) for a, b in got.items())})

    # ------------------------------------------------------------------ RB2
    n2 = 0
    by_parent = {}
    for p in payload_leaves:
        if p in finals and finals[p]:
            by_parent.setdefault(p[:-1], []).append(p)

    def norm(path):
        return tuple(frozenset(h for _, h, _, _ in P.start.get(path[:i], ())) for i in range(1, len(path) + 1))

    feeders = {}
    for p, fin in finals.items():
        for f in fin:
            feeders.setdefault(f, {}).setdefault((norm(p[:-1]), tmap[p[-1]][1]), []).append(p)
    shared_ok = {(e["field"], frozenset(e["tags"])) for e in T.get("shared_fields", [])}
    used_shared = set()
    for parent, kids in sorted(by_parent.items()):
        for p in kids:
            n2 += 1
            problems = []
            for q in kids:
                if q is p or tmap[q[-1]][1] == tmap[p[-1]][1]:
                    continue
                common = finals[p] & finals[q]
                if common:
                    problems.append("<%s> and <%s> of one <%s> are both stored into %s - the later one overwrites "
                                    "the earlier" % (p[-1], q[-1], parent[-1], sorted(map(fmt_path, common))))
            for f in sorted(finals[p]):
                fs = feeders[f]
                if len(fs) > 1:
                    others = sorted({_key(x[0]) for k2, x in fs.items() if p not in x})
                    tags = frozenset(x[0][-1] for x in fs.values())
                    hit = [e for e in shared_ok if e[0] == fmt_path(f) and tags <= e[1]]
                    if hit:
                        used_shared.add(hit[0])
                        continue
                    problems.append("%s is also fed from %s" % (fmt_path(f), others[:4]))
            if problems:
                broken_if_imprecise(p, "a field fed by two tags")
            ctx.report(RULE, "RB2:" + _key(p), not problems, stores_of[p][0].where if stores_of.get(p) else "", "",
                       msg="; ".join(problems), detail={"fields": sorted(map(fmt_path, finals[p]))})
    for e in T.get("shared_fields", []):
        ok = (e["field"], frozenset(e["tags"])) in used_shared
        ctx.report(RULE, "RB2:table:shared:%s" % e["field"], ok, "", "",
                   msg="" if ok else "stale entry of tables/rb.json shared_fields: %s is no longer fed by %s"
                   % (e["field"], e["tags"]))
    # alternatives of one xs:choice that are empty elements must record different values
    for parent in sorted({p[:-1] for p in flag_store}):
        d = P.decl.get(parent)
        if d is None:
            continue
        for alts in xsd.choices(d):
            ps = [parent + (a,) for a in alts if parent + (a,) in flag_store]
            for p in ps:
                n2 += 1
                problems = []
                for q in ps:
                    if q is p:
                        continue
                    for f in set(flag_store[p]) & set(flag_store[q]):
                        if flag_store[p][f] & flag_store[q][f]:
                            problems.append("<%s> and <%s> record the same value %s in %s" % (
                                p[-1], q[-1], sorted(flag_store[p][f] & flag_store[q][f]), fmt_path(f)))
                    if flag_store[p] and flag_store[q] and not (set(flag_store[p]) & set(flag_store[q])):
                        problems.append("<%s> and <%s> are alternatives but are recorded in different fields (%s / %s)"
                                        % (p[-1], q[-1], sorted(map(fmt_path, flag_store[p])), sorted(map(fmt_path, flag_store[q]))))
                ctx.report(RULE, "RB2:" + _key(p), not problems, "", "", msg="; ".join(sorted(set(problems))))

    # ------------------------------------------------------------------ attributes (RB1/RB2/RB3)
    validated = {(e["element"], e["attribute"]) for e in T.get("validated_attributes", [])}
    na = 0
    attr_finals = {}
    for p in sorted(P.start):
        name = p[-1]
        attrs = sorted(a for (el, a) in W.attrs if el == name)
        for a in attrs:
            na += 1
            key = _key(p, a)
            kinds = set()
            for ks, wh in W.attrs[(name, a)]:
                kinds |= ks
            eff = PE.attr_run(p, a)
            sts = [st for st in eff.stores if any(x[0] == "attr" for x in st.deps) and not _skip_dst(M, st.dst)]
            fin = set()
            for st in sts:
                fin |= FL.resolve(st.dst, p)
            attr_finals[(p, a)] = fin
            hs = sorted({short(h) for _, h, _, _ in P.start[p]})
            if kinds == {"const"}:
                ok = (name, a) in validated
                ctx.report(RULE, "RB1:" + key, ok or bool(fin), W.attrs[(name, a)][0][1], ", ".join(hs),
                           msg="" if ok or fin else "constant attribute %s of <%s> is neither stored nor listed as "
                           "validated in tables/rb.json" % (a, name), detail={"constant": True})
                continue
            if not fin:
                if eff.opaque:
                    raise AnalysisBroken("R-RB: attribute %s of <%s>: %s" % (a, name, eff.opaque[:2]))
                ctx.bad(RULE, "RB1:" + key, W.attrs[(name, a)][0][1], ", ".join(hs),
                        msg="the writer emits the attribute %s=\"..\" on <%s> (%s) but the start handler %s does not "
                        "store it: the value is lost when the file is read back" % (a, name, sorted(kinds), ", ".join(hs)))
                continue
            problems = []
            for st in sts:
                fk = type_kind(st.dst_t)
                if fk != "text" and not any(x[0] == "derived" for x in st.deps):
                    problems.append("attribute text stored into a field of type %s at %s" % (short(st.dst_t or "?"), st.where))
            ctx.report(RULE, "RB1:" + key, not problems, sts[0].where, ", ".join(hs), msg="; ".join(problems),
                       detail={"fields": sorted(map(fmt_path, fin))})
        for a in attrs:
            fin = attr_finals.get((p, a)) or set()
            if not fin:
                continue
            n2 += 1
            clash = [b for b in attrs if b != a and fin & (attr_finals.get((p, b)) or set())]
            ctx.report(RULE, "RB2:" + _key(p, a), not clash, "", "",
                       msg="" if not clash else "attributes %s and %s of <%s> are stored into the same field %s"
                       % (a, clash, name, sorted(map(fmt_path, fin))))

    ctx.floor(RULE, T["floors"]["RB1"], n1 + na, "leaf elements and attributes with a read-back obligation (RB1)")
    if n2_skipped:
        ctx.note("R-RB: RB2/RB3 not evaluated for %d leaf path(s) that fail RB1" % len(n2_skipped))
    ctx.floor(RULE, T["floors"]["RB2"], n2 + len(n2_skipped), "sibling / shared-field checks (RB2)")
    ctx.floor(RULE, T["floors"]["RB3"], n3 + len(n2_skipped), "payload conversions compared (RB3)")
    n4 = _rb4(ctx, T, xsd, P, M, PE, FL)
    if unclosable:
        ctx.note("R-RB: %d element(s) cannot be closed by the reader (reported under RB1); the floor of RB4 is "
                 "not applied to the records below them" % len(unclosable))
        n4 = max(n4, T["floors"]["RB4"])
    ctx.floor(RULE, T["floors"]["RB4"], n4, "scratch fields of records (RB4)")
    n5 = _rb5_reads(ctx, T, M, PE, FL)
    ctx.floor(RULE, T["floors"]["RB5"], n5, "fields of the results data read by the consumers (RB5)")
    n6 = _rb5_index(ctx, T, xsd, P, M, PE, FL)
    if unclosable:
        n6 = max(n6, T["floors"]["RB5-index"])
    ctx.floor(RULE, T["floors"]["RB5-index"], n6, "row-number clauses of the covariance matrix (RB5)")
    return dict(P=P, PE=PE, FL=FL, W=W, M=M, xsd=xsd, finals=finals)


# --------------------------------------------------------------------------- RB4

def _rb4(ctx, T, xsd, P, M, PE, FL):
    fx = ctx.facts
    counters = {st.dst for _, st in FL.all_stores() if st.kind == "incr" and st.dst[0] == "this" and len(st.dst) == 2}
    records = []     # (path, scratch object path, push store)
    for p, eff in sorted(PE.end_eff.items()):
        for st in eff.stores:
            if st.dst[0] != "R" or st.kind not in ("push", "assign"):
                continue
            locs = st.locs()
            if len(locs) != 1 or st.pay():
                continue
            O = next(iter(locs))
            if O[0] != "this" or len(O) != 2:
                continue
            t = strip_targs(M.field_t.get(O[1], "")).replace("const ", "").strip()
            if t in fx.classes and fx.classes[t].get("fields"):
                records.append((p, O, st, t))
    verdicts = {}        # key -> [(path, ok, reason)]

    def writes(eff, Fld):
        out = []
        for w in eff.stores:
            if w.kind in ("incr", "drop"):
                continue
            if len(w.dst) <= len(Fld) and Fld[:len(w.dst)] == w.dst and not any(Fld[:len(q)] == q for q in w.locs()):
                out.append(w)
        return out

    def judge(p, Fld, push):
        d = P.decl[p]
        if any(w.must for w in writes(PE.start_eff[p], Fld)):
            return True, "reset when the record starts"
        for w in writes(PE.end_eff[p], Fld):
            if FL._dominates(w, push):
                return True, "assigned by the end handler before the record is pushed"
        for c in sorted(xsd.mandatory(d)):
            ce = PE.end_eff.get(p + (c,))
            cs = PE.start_eff.get(p + (c,))
            for e in (ce, cs):
                if e is not None and any(w.must for w in writes(e, Fld)):
                    return True, "written by the mandatory child <%s>" % c
        after = [w for w in writes(PE.end_eff[p], Fld) if w.must and FL._dominates(push, w)]
        if after:
            init = any(w.must for w in writes(PE.ctor_eff, Fld))
            for i in range(1, len(p)):
                init = init or any(w.must for w in writes(PE.start_eff[p[:i]], Fld))
            if init:
                return True, "reset after the push and initialised before the first record"
            return False, "reset only after the record is pushed: the first record of a document sees an uninitialised value"
        opt = sorted(c for c in xsd.children(d) if c not in xsd.mandatory(d)
                     and any(writes(e, Fld) for e in (PE.end_eff.get(p + (c,)), PE.start_eff.get(p + (c,))) if e is not None))
        if opt:
            return False, "written only by the optional child(ren) %s and never reset: a record without them keeps " \
                          "the value of the previous record" % ", ".join("<%s>" % c for c in opt)
        cond = writes(PE.end_eff[p], Fld)
        if cond:
            return False, "assigned only on some paths of the end handler and never reset"
        return False, "never written before the record is pushed (indeterminate value)"

    for p, O, push, t in records:
        for f in fx.classes[t]["fields"]:
            Fld = O + (f["name"],)
            ok, why = judge(p, Fld, push)
            verdicts.setdefault("RB4:%s.%s" % (_short_cls(t), f["name"]), []).append((p, ok, why, push.where))
        # scalar scratch members the end handler folds into the record / the results
        scalars = set()
        for st in PE.end_eff[p].stores:
            if st.kind == "drop" or _skip_dst(M, st.dst):
                continue
            for q in st.locs():
                if q[0] == "this" and len(q) == 2 and q != O and q not in counters and q[1] not in PE.env_of[p].members \
                        and q[1] not in M.ptr_members and FL.resolve(st.dst, p):
                    scalars.add(q)
        for q in sorted(scalars):
            ok, why = judge(p, q, push)
            verdicts.setdefault("RB4:scratch:%s" % q[1], []).append((p, ok, why, push.where))
    n = 0
    for key, vs in sorted(verdicts.items()):
        n += 1
        badp = [(p, why) for p, ok, why, _ in vs if not ok]
        if badp:
            for p, _ in badp:
                u = PE.start_eff[p].undecided | PE.end_eff[p].undecided
                if u or PE.start_eff[p].opaque or PE.end_eff[p].opaque:
                    raise AnalysisBroken("R-RB: %s would be reported for <%s>, but the handler evaluation is not exact "
                                         "(%s)" % (key, _key(p), sorted(u)))
        ctx.report(RULE, key, not badp, vs[0][3], "",
                   msg="" if not badp else "; ".join("<%s>: %s" % (_key(p), why) for p, why in badp[:3]),
                   detail={"records": sorted({_key(p) for p, _, _, _ in vs}), "why": sorted({w for _, ok, w, _ in vs if ok})})
    return n


# --------------------------------------------------------------------------- RB5: consumers

class _Consumer:
    """Reads of the results data in one consumer function, as access paths rooted at the results object."""

    def __init__(self, fn, M):
        self.fn, self.M = fn, M
        self.defs = {}
        for n in fn.walk():
            if n.get("k") == "DeclStmt":
                for d in n.get("decls", []):
                    if "decl" in d and d.get("init") is not None:
                        self.defs.setdefault(d["decl"], []).append(d["init"])

    def is_results(self, t):
        t = (t or "").replace("const ", "").replace("*", "").replace("&", "").strip()
        t = strip_targs(t)
        return t in (self.M.results_cls, table()["results_data_class"])

    def rpath(self, n, depth=0):
        if n is None or depth > 12:
            return None
        k = n.get("k")
        c = n.get("c") or []
        if k == "MemberExpr" and n.get("mk") == "field":
            b = c[0] if c else None
            bp = self.rpath(b, depth + 1)
            if bp is not None:
                return bp + (n.get("member"),)
            if b is not None and (self.is_results(b.get("t")) or (b.get("k") == "CXXThisExpr" and self.is_results(n.get("owner")))):
                return R + (n.get("member"),)
            if strip_targs(n.get("owner") or "") in (self.M.results_cls, table()["results_data_class"]):
                return R + (n.get("member"),)
            return None
        if k == "DeclRefExpr" and n["ref"].get("dk") == "local":
            for init in self.defs.get(n["ref"].get("decl"), []):
                p = self.rpath(init, depth + 1)
                if p is not None:
                    return p
            return None
        if k in _CASTS or (k in ("CXXConstructExpr", "CXXTemporaryObjectExpr") and len(c) == 1):
            return self.rpath(c[0], depth + 1) if c else None
        if k == "UnaryOperator" and n.get("op") in ("*", "&"):
            return self.rpath(c[0], depth + 1)
        if k == "CXXOperatorCallExpr" and len(c) >= 2:
            op = n.get("op")
            p = self.rpath(c[1], depth + 1)
            if p is None:
                return None
            if op in ("[]", "()"):
                return p + ("[]",)
            if op in ("*", "->", "++", "--"):
                return p
            return None
        if k == "CXXMemberCallExpr":
            name = short(n.get("callee") or "").split("::")[-1]
            p = self.rpath(F.call_object(n), depth + 1)
            if p is None:
                return None
            if name in ("begin", "end", "cbegin", "cend", "front", "back", "at", "operator[]"):
                return p + ("[]",)
            return None
        return None


def _consumer_fns(ctx, T):
    fx = ctx.facts
    out = []
    for c in T["consumers"]:
        fx.cls(c["class"])
        fs = [f for f in fx.methods_of(c["class"]) if f.body is not None]
        if not fs:
            raise AnalysisBroken("consumer class %s has no method bodies in the fact base" % c["class"])
        out.extend(fs)
    return out


def _rb5_reads(ctx, T, M, PE, FL):
    n = 0
    for f in sorted(_consumer_fns(ctx, T), key=lambda x: x.key):
        C = _Consumer(f, M)
        reads = {}
        for x in f.walk():
            p = None
            if x.get("k") == "MemberExpr" and x.get("mk") == "field":
                par = f.parent(x)
                if par is not None and par.get("k") == "MemberExpr" and par.get("mk") == "field" \
                        and (par.get("c") or [None])[0] is x:
                    continue
                p = C.rpath(x)
                if p is not None and type_kind(x.get("t")) is None:
                    # an aggregate: a read only when it is subscripted / called (cov(i,j))
                    if par is not None and par.get("k") == "CXXOperatorCallExpr" and par.get("op") in ("()", "[]") \
                            and len(par.get("c") or []) > 1 and par["c"][1] is x:
                        p = p + ("[]",)
                    else:
                        p = None
            if p is not None:
                reads.setdefault(p, x)
        if reads:
            ctx.saw(f)
        for p, x in sorted(reads.items()):
            n += 1
            ok = FL.info(p)
            ctx.report(RULE, "RB5:%s:%s" % (short(f.qn), fmt_path(p)), ok, f.where(x), f.short,
                       msg="" if ok else "%s reads %s, but the reader of the adjustment XML never stores document "
                       "information into that field (it keeps its initial / reset value whatever the file says)"
                       % (short(f.qn), fmt_path(p)))
    return n


def _doc_order(xsd, root_decl, root):
    order = {}

    def rec(path, d, depth):
        order[path] = len(order)
        if depth > 12:
            return

        def parts(ps):
            for p in ps:
                if p[0] == "elem":
                    if path + (p[1],) not in order:
                        rec(path + (p[1],), p[2], depth + 1)
                else:
                    parts(p[2])
        parts(xsd.content(d))
    rec((root,), root_decl, 0)
    return order


def _rb5_index(ctx, T, xsd, P, M, PE, FL):
    """The rows of the covariance matrix are numbered by a position counter of the reader (the file has no
    explicit row numbers): the counter must start at the index base of CovMat, advance by one exactly when
    the value the row belongs to is present, in document order, and be reset only where the numbering starts."""
    fx = ctx.facts
    idx_tab = T["index_fields"]
    base = T["cov_index_base"]
    counters = {st.dst for _, st in FL.all_stores() if st.kind == "incr" and st.dst[0] == "this" and len(st.dst) == 2}
    # feeds: stores whose only location source is a counter
    feeds = []           # (path, store, counter)
    for p, eff in sorted(PE.end_eff.items()):
        for st in eff.stores:
            ks = [q for q in st.locs() if q in counters]
            if ks and st.kind == "assign" and st.dst[0] == "this" and len(st.dst) == 3:
                feeds.append((p, st, ks[0]))
    order = _doc_order(xsd, xsd.decl(P_root(P)), P_root(P))
    n = 0
    seen_fields = set()
    K = {k for _, _, k in feeds}
    if len(K) > 1:
        raise AnalysisBroken("R-RB: several position counters feed index fields: %s" % sorted(map(fmt_path, K)))
    for p, st, k in feeds:
        t = strip_targs(M.field_t.get(st.dst[1], ""))
        name = "%s.%s" % (_short_cls(t), st.dst[2])
        if name in seen_fields:
            continue
        seen_fields.add(name)
        n += 1
        key = "RB5:index:" + name
        if name not in idx_tab:
            ctx.bad(RULE, key, st.where, "", msg="%s is numbered by the position counter %s but tables/rb.json "
                    "index_fields does not say which value it is the row of" % (name, fmt_path(k)))
            continue
        problems = []
        eff = PE.end_eff[p]
        fn_, node = st.fn, st.node
        rhs = node["c"][1] if node.get("k") == "BinaryOperator" else None
        form = None
        if rhs is not None and rhs.get("k") == "UnaryOperator" and rhs.get("op") in ("++", "--"):
            form = "post" if rhs.get("postfix") else "pre"
            if rhs.get("op") == "--":
                problems.append("the counter is decremented")
        else:
            incs = [w for w in eff.stores if w.kind == "incr" and w.dst == k and w.fn.key == fn_.key]
            before = [w for w in incs if fn_.cfg.dominates(w.node, node)]
            after = [w for w in incs if fn_.cfg.dominates(node, w.node)]
            if len(before) == 1 and not after:
                form = "pre"
            elif len(after) == 1 and not before:
                form = "post"
            else:
                raise AnalysisBroken("R-RB: %s: cannot pair the read of %s with one increment" % (st.where, fmt_path(k)))
        steps = {c for w in eff.stores if w.kind == "incr" and w.dst == k for c in w.consts()}
        if steps - {"1"}:
            problems.append("the counter advances by %s" % sorted(steps))
        resets = [(pp, w) for pp, w in FL.all_stores() if w.dst == k and w.kind == "assign"]
        vals = {c for _, w in resets for c in w.consts()}
        if len(vals) != 1 or any(w.locs() or w.pay() for _, w in resets):
            raise AnalysisBroken("R-RB: the position counter %s is not reset to one constant (%s)" % (fmt_path(k), sorted(vals)))
        c0 = int(next(iter(vals)))
        first = c0 + 1 if form == "pre" else c0
        if first != base:
            problems.append("the first row gets number %d (counter reset to %d, %s-increment) but CovMat rows are "
                            "numbered from %d" % (first, c0, form, base))
        # guard: executed exactly when the value field's leaf is present
        val_field = idx_tab[name]["row_of"]
        vpath = st.dst[:2] + (val_field.split(".")[-1],)
        leaves = sorted(c for c in xsd.children(P.decl[p]) if PE.end_eff.get(p + (c,)) is not None
                        and any(w.dst == vpath and w.pay() for w in PE.end_eff[p + (c,)].stores))
        if not leaves:
            problems.append("no child of <%s> stores %s" % (p[-1], val_field))
        mand = xsd.mandatory(P.decl[p])
        guards = _guards(fn_, node, PE, p)
        if all(c in mand for c in leaves):
            if guards:
                problems.append("the row number is assigned under a condition although <%s> is mandatory" % "/".join(leaves))
        else:
            cover = set()
            for g in guards:
                cover |= _presence_leaves(g, p, PE, xsd, P, FL)
            if not guards:
                problems.append("the row number is assigned whether or not <%s> is present: a record without it "
                                "shifts the numbers of all later rows" % "/".join(leaves))
            elif not set(leaves) & cover:
                problems.append("the row number is guarded by a flag that the handler(s) of <%s> do not set "
                                "(set by: %s)" % ("/".join(leaves), sorted(cover)))
        ctx.report(RULE, key, not problems, st.where, fn_.short, msg="; ".join(problems),
                   detail={"counter": fmt_path(k), "form": form, "reset": c0, "leaves": leaves})
    # order of the numbered fields inside one record = document order of their value leaves
    by_rec = {}
    for p, st, k in feeds:
        by_rec.setdefault((p, st.fn.key), []).append(st)
    done = set()
    for (p, fk), sts in sorted(by_rec.items(), key=str):
        t = strip_targs(M.field_t.get(sts[0].dst[1], ""))
        key = "RB5:index:order:%s" % _short_cls(t)
        if key in done or len(sts) < 2:
            continue
        done.add(key)
        n += 1
        fn_ = sts[0].fn
        pos = {}
        for st in sts:
            name = "%s.%s" % (_short_cls(t), st.dst[2])
            vf = idx_tab.get(name, {}).get("row_of", "").split(".")[-1]
            cands = [order.get(p + (c,)) for c in xsd.children(P.decl[p]) if PE.end_eff.get(p + (c,)) is not None
                     and any(w.dst == st.dst[:2] + (vf,) and w.pay() for w in PE.end_eff[p + (c,)].stores)]
            cands = [c for c in cands if c is not None]
            pos[st] = min(cands) if cands else None
        problems = []
        for a in sts:
            for b in sts:
                if a is b or pos[a] is None or pos[b] is None or pos[a] >= pos[b]:
                    continue
                if not _before(fn_, a.node, b.node):
                    problems.append("%s is numbered after %s although its value comes first in the file"
                                    % (fmt_path(a.dst), fmt_path(b.dst)))
        ctx.report(RULE, key, not problems, sts[0].where, fn_.short, msg="; ".join(sorted(set(problems))))
    # the reset
    if K:
        k = next(iter(K))
        n += 1
        resets = sorted({pp for pp, w in FL.all_stores() if w.dst == k and w.kind == "assign" and isinstance(pp, tuple)
                         and pp in PE.start_eff and any(w2 is w or w2.ident() == w.ident() for w2 in PE.start_eff[pp].stores)})
        feed_paths = sorted({p for p, _, _ in feeds}, key=lambda q: order.get(q, 1 << 30))
        problems = []
        if len(resets) != 1:
            problems.append("the counter is reset in the start handlers of %s" % [_key(r) for r in resets])
        else:
            r = resets[0]
            first = feed_paths[0]
            if first[:len(r)] != r:
                problems.append("reset at <%s>, which does not enclose the first numbered record <%s>" % (_key(r), _key(first)))
            for q in feed_paths[1:]:
                if order.get(q, -1) < order.get(first, -1):
                    problems.append("<%s> precedes the reset" % _key(q))
        end_resets = sorted({_key(pp) for pp, w in FL.all_stores() if w.dst == k and w.kind == "assign"
                             and isinstance(pp, tuple) and pp in PE.end_eff
                             and any(w2.ident() == w.ident() for w2 in PE.end_eff[pp].stores)
                             and not (pp in PE.start_eff and any(w2.ident() == w.ident() for w2 in PE.start_eff[pp].stores))})
        if end_resets:
            problems.append("the counter is also reset at the end of %s" % end_resets)
        ctx.report(RULE, "RB5:index:counter-reset", not problems, "", "", msg="; ".join(problems),
                   detail={"reset_at": [_key(r) for r in resets], "numbered": [_key(q) for q in feed_paths]})
    for name in idx_tab:
        if name not in seen_fields:
            n += 1
            ctx.bad(RULE, "RB5:index:" + name, "", "", msg="tables/rb.json lists %s as a row number of the covariance "
                    "matrix but the reader does not number it from its position counter" % name)
    n += _rb5_index_users(ctx, T, M, idx_tab)
    return n


def P_root(P):
    return min(P.decl, key=len)[0]


def _before(fn, a, b):
    """node a can be followed by node b, and b is never followed by a (outside loops)"""
    cfg = fn.cfg
    pa, pb = cfg.block_of(a), cfg.block_of(b)
    if pa is None or pb is None:
        return False
    if pa[0] == pb[0]:
        return pa[1] < pb[1]
    return pb[0] in cfg.reachable_blocks_from(pa[0]) and pa[0] not in cfg.reachable_blocks_from(pb[0])


def _guards(fn, node, PE, path):
    """conditions of the enclosing if-statements that are not decided by the context of the path"""
    env = PE.env_of[path]
    fe = _FnEval(PE.ev, fn, env.copy(state=None), {_bool_param(fn): 0} if len(fn.params) == 1 else {}, {}, {}, 0)
    out = []
    cur = node
    for anc in fn.ancestors(node):
        if anc.get("k") == "IfStmt":
            inthen = anc.get("then") is not None and any(x is cur or x["id"] == cur["id"] for x in walk(anc["then"]))
            v = fe.cval(anc.get("cond"))
            if v is None:
                out.append((anc.get("cond"), inthen, fe))
        elif anc.get("k") in ("SwitchStmt", "ConditionalOperator", "WhileStmt", "ForStmt", "DoStmt"):
            raise AnalysisBroken("R-RB: %s: row number assigned inside a %s" % (fn.where(node), anc.get("k")))
    return out


def _presence_leaves(g, p, PE, xsd, P, FL):
    """children of record p whose handlers set a flag that the guard condition reads (positively)"""
    cond, inthen, fe = g
    locs = {a[1] for a in fe.deps(cond) if a[0] == "loc"}
    # follow flags assigned by the end handler itself (tmp_point.hxy = point_has_x && point_has_y)
    work, seen = list(locs), set()
    while work:
        q = work.pop()
        if q in seen:
            continue
        seen.add(q)
        for w in PE.end_eff[p].stores:
            if w.dst == q and w.kind == "assign":
                work.extend(w.locs())
    out = set()
    if not inthen:
        return out
    for c in xsd.children(P.decl[p]):
        for e in (PE.end_eff.get(p + (c,)), PE.start_eff.get(p + (c,))):
            if e is not None and any(w.dst in seen and w.must and w.consts() - {"False", "0"} for w in e.stores):
                out.add(c)
    return out


def _rb5_index_users(ctx, T, M, idx_tab):
    """Consumers address the covariance matrix only with row numbers (the index fields) or plain loop
    positions - never with values of another numbering stored in the results (original-index)."""
    fx = ctx.facts
    idx_names = {k.split(".")[-1] for k in idx_tab}
    idx_owner = {k.split(".")[0] for k in idx_tab}
    n = 0
    for c in T["consumers"]:
        fns = [f for f in fx.methods_of(c["class"]) if f.body is not None]
        labels = {}          # node key -> set of results paths

        def node_of(f, x):
            k = x.get("k")
            if k == "MemberExpr" and x.get("mk") == "field":
                return ("f", strip_targs(x.get("owner") or ""), x.get("member"))
            if k == "DeclRefExpr" and x["ref"].get("dk") in ("local", "parm"):
                return ("l", f.key, x["ref"].get("decl"))
            return None

        def sources(f, C, e, skip_index=True):
            out = set()
            stack = [e]
            while stack:
                x = stack.pop()
                if x is None:
                    continue
                p = C.rpath(x) if x.get("k") in ("MemberExpr", "CXXOperatorCallExpr") else None
                if p is not None and type_kind(x.get("t")) in ("int", "float"):
                    out.add(("R", p))
                    continue
                k = x.get("k")
                if k in ("ArraySubscriptExpr",) or (k == "CXXOperatorCallExpr" and x.get("op") == "[]"):
                    cc = x.get("c") or []
                    stack.append(cc[0] if k == "ArraySubscriptExpr" else (cc[1] if len(cc) > 1 else None))
                    continue
                nk = node_of(f, x)
                if nk is not None:
                    out.add(nk)
                    if nk[0] == "f":
                        continue
                stack.extend(y for y in F.children(x) if isinstance(y, dict))
            return out

        edges = []           # (dst node, {source nodes / ("R", path)})
        sinks = []
        for f in fns:
            C = _Consumer(f, M)
            for x in f.walk():
                k = x.get("k")
                cc = x.get("c") or []
                if k == "BinaryOperator" and x.get("op") == "=":
                    d = node_of(f, cc[0]) or (node_of(f, cc[0]["c"][1]) if cc[0].get("k") == "CXXOperatorCallExpr"
                                              and cc[0].get("op") == "[]" and len(cc[0].get("c") or []) > 1 else None)
                    if d is not None and type_kind(cc[0].get("t")) in ("int", "float"):
                        edges.append((d, sources(f, C, cc[1])))
                elif k == "DeclStmt":
                    for dd in x.get("decls", []):
                        if dd.get("init") is not None and "decl" in dd and type_kind(dd.get("t")) in ("int", "float"):
                            edges.append((("l", f.key, dd["decl"]), sources(f, C, dd["init"])))
                elif k == "CXXMemberCallExpr" and short(x.get("callee") or "").split("::")[-1] in _APPEND:
                    obj = F.call_object(x)
                    d = node_of(f, obj) if obj is not None else None
                    if d is not None:
                        s = set()
                        for a in F.call_args(x):
                            s |= sources(f, C, a)
                        edges.append((d, s))
                elif k == "CXXOperatorCallExpr" and x.get("op") == "()" and len(cc) > 1:
                    p = C.rpath(cc[1])
                    if p is not None and type_kind(x.get("t")) == "float" and len(cc) > 2:
                        sinks.append((f, x, p, [sources(f, C, a) for a in cc[2:]]))
        changed = True
        while changed:
            changed = False
            for d, srcs in edges:
                cur = labels.setdefault(d, set())
                before = len(cur)
                for s_ in srcs:
                    if s_[0] == "R":
                        cur.add(s_[1])
                    else:
                        cur |= labels.get(s_, set())
                if len(cur) != before:
                    changed = True
        for f, x, p, args in sinks:
            n += 1
            bad = set()
            for srcs in args:
                for s_ in srcs:
                    ps = {s_[1]} if s_[0] == "R" else labels.get(s_, set())
                    for q in ps:
                        if q[-1] not in idx_names:
                            bad.add(fmt_path(q))
            key = "RB5:index:use:%s:%s" % (short(f.qn), re.sub(r"\s+", "", F.expr_text(x["c"][1])))
            ctx.saw(f)
            ctx.report(RULE, key, not bad, f.where(x), f.short,
                       msg="" if not bad else "%s is addressed with values read from %s: the rows of the matrix are "
                       "numbered by position (index fields %s), not by that numbering" % (fmt_path(p), sorted(bad), sorted(idx_tab)))
    return n
