"""R-REC: the character-level recognisers accept exactly the documented literal formats.

`IsFloat` / `IsInteger` (lib/gnu_gama/intfloat.h) decide which attribute values and text
fields the XML readers hand to atof/atoi.  They are hand-written scanners: one position
that only moves forward, tests of the character under it, a few boolean locals.  Such a
function *is* a finite automaton, and the automaton can be read off the code:

  abstract state = (CFG block, element index, values of the boolean locals,
                    knowledge about the character under the position:
                    unknown | end of input | one atom of the alphabet)

The alphabet atoms are the coarsest partition of the 256 characters that the code and the
reference expression can tell apart (every character literal is its own atom, the rest is
split by the <cctype> predicates that occur).  A test of an unknown character splits the
state (a guess); `++b` consumes the guessed atom - that is a transition of a
non-deterministic automaton whose language is exactly the set of strings on which the
function returns true, for *every* input (no string is ever run).  The automaton is
determinised and compared with the automaton of the documented format from
tables/rec.json (product construction); a difference is reported with the shortest
string on which they disagree.  Two safety clauses fall out of the same exploration: the
position is never dereferenced and never advanced at the end of the input.

`TrimWhiteSpaces(b, e)` is a primitive of the model (two cursors; its effect - no leading
or trailing white space between b and e afterwards - is taken from its documentation and
the language is compared on such strings); anything else the interpreter does not model
is exit 2, never a verdict.
"""
import engine
import facts as F
from facts import AnalysisBroken, strip_targs

RULE = "R-REC"

CTYPE = {
    "isdigit": lambda c: 48 <= c <= 57,
    "isspace": lambda c: c in (9, 10, 11, 12, 13, 32),
    "isalpha": lambda c: 65 <= c <= 90 or 97 <= c <= 122,
    "isalnum": lambda c: 48 <= c <= 57 or 65 <= c <= 90 or 97 <= c <= 122,
    "isupper": lambda c: 65 <= c <= 90,
    "islower": lambda c: 97 <= c <= 122,
    "isxdigit": lambda c: 48 <= c <= 57 or 65 <= c <= 70 or 97 <= c <= 102,
    "ispunct": lambda c: 33 <= c <= 47 or 58 <= c <= 64 or 91 <= c <= 96 or 123 <= c <= 126,
}
END = "END"
NOTEND = "NOTEND"


# ----------------------------------------------------------------------------- regular expressions

class Rx:
    """Tiny regular-expression reader: literals, \\x escapes, \\d \\s, [a-z] classes, ( ), |, ? * +"""

    def __init__(self, text):
        self.t = text
        self.i = 0
        self.n = 0
        self.eps = []       # (a, b)
        self.edges = []     # (a, charset, b)
        self.literals = set()
        s, e = self.alt()
        if self.i != len(self.t):
            raise AnalysisBroken("R-REC: cannot read reference expression %r at %d" % (text, self.i))
        self.start, self.final = s, e

    def new(self):
        self.n += 1
        return self.n

    def alt(self):
        s, e = self.new(), self.new()
        while True:
            a, b = self.cat()
            self.eps.append((s, a))
            self.eps.append((b, e))
            if self.i < len(self.t) and self.t[self.i] == "|":
                self.i += 1
                continue
            return s, e

    def cat(self):
        s = self.new()
        cur = s
        while self.i < len(self.t) and self.t[self.i] not in "|)":
            a, b = self.rep()
            self.eps.append((cur, a))
            cur = b
        return s, cur

    def rep(self):
        a, b = self.atom()
        while self.i < len(self.t) and self.t[self.i] in "?*+":
            op = self.t[self.i]
            self.i += 1
            s, e = self.new(), self.new()
            self.eps.append((s, a))
            self.eps.append((b, e))
            if op in "?*":
                self.eps.append((s, e))
            if op in "*+":
                self.eps.append((b, a))
            a, b = s, e
        return a, b

    def cls_escape(self, ch):
        if ch == "d":
            return set(range(48, 58))
        if ch == "s":
            return {9, 10, 11, 12, 13, 32}
        return {ord(ch)}

    def atom(self):
        ch = self.t[self.i]
        if ch == "(":
            self.i += 1
            a, b = self.alt()
            if self.i >= len(self.t) or self.t[self.i] != ")":
                raise AnalysisBroken("R-REC: unbalanced ( in reference expression")
            self.i += 1
            return a, b
        if ch == "[":
            self.i += 1
            cs = set()
            while self.t[self.i] != "]":
                c = self.t[self.i]
                if c == "\\":
                    self.i += 1
                    cs |= self.cls_escape(self.t[self.i])
                    self.i += 1
                    continue
                if self.i + 2 < len(self.t) and self.t[self.i + 1] == "-" and self.t[self.i + 2] != "]":
                    cs |= set(range(ord(c), ord(self.t[self.i + 2]) + 1))
                    self.i += 3
                    continue
                cs.add(ord(c))
                self.i += 1
            self.i += 1
        elif ch == "\\":
            self.i += 1
            cs = self.cls_escape(self.t[self.i])
            self.i += 1
        else:
            cs = {ord(ch)}
            self.i += 1
        self.literals |= cs
        a, b = self.new(), self.new()
        self.edges.append((a, frozenset(cs), b))
        return a, b


# ----------------------------------------------------------------------------- automata over atoms

class NFA:
    def __init__(self):
        self.eps = {}
        self.sym = {}
        self.final = set()

    def add_eps(self, a, b):
        self.eps.setdefault(a, set()).add(b)

    def add_sym(self, a, atom, b):
        self.sym.setdefault(a, {}).setdefault(atom, set()).add(b)

    def closure(self, states):
        seen = set(states)
        todo = list(states)
        while todo:
            s = todo.pop()
            for t in self.eps.get(s, ()):
                if t not in seen:
                    seen.add(t)
                    todo.append(t)
        return frozenset(seen)

    def determinise(self, start, atoms):
        s0 = self.closure({start})
        ids = {s0: 0}
        trans = {}
        final = set()
        todo = [s0]
        while todo:
            S = todo.pop()
            i = ids[S]
            if S & self.final:
                final.add(i)
            for a in atoms:
                T = set()
                for s in S:
                    T |= self.sym.get(s, {}).get(a, set())
                T = self.closure(T)
                if T not in ids:
                    ids[T] = len(ids)
                    todo.append(T)
                trans[(i, a)] = ids[T]
            if len(ids) > 20000:
                raise AnalysisBroken("R-REC: automaton does not stay finite")
        return 0, trans, final, len(ids)


def _difference(d1, d2, atoms, allowed=None):
    """shortest word (list of atoms) accepted by exactly one of two complete DFAs; `allowed` = optional
    third DFA restricting the words looked at."""
    s1, t1, f1, _ = d1
    s2, t2, f2, _ = d2
    if allowed is not None:
        s3, t3, f3, _ = allowed
    else:
        s3, t3, f3 = 0, None, None
    start = (s1, s2, s3)
    seen = {start: None}
    todo = [start]
    qi = 0
    while qi < len(todo):
        cur = todo[qi]
        qi += 1
        a1, a2, a3 = cur
        ok3 = True if t3 is None else (a3 in f3)
        if ok3 and ((a1 in f1) != (a2 in f2)):
            word = []
            x = cur
            while seen[x] is not None:
                x, a = seen[x]
                word.append(a)
            return list(reversed(word)), (a1 in f1)
        for a in atoms:
            nxt = (t1[(a1, a)], t2[(a2, a)], 0 if t3 is None else t3[(a3, a)])
            if nxt not in seen:
                seen[nxt] = (cur, a)
                todo.append(nxt)
    return None, None


def _render(word, atoms_repr):
    return "".join(atoms_repr[a] for a in word)


# ----------------------------------------------------------------------------- the scanner interpreter

class Scanner:
    def __init__(self, fn):
        self.fn = fn
        if len(fn.params) != 2:
            raise AnalysisBroken("R-REC: %s is not a (position, end) scanner" % fn.short)
        self.pos = fn.params[0]["decl"]
        self.end = fn.params[1]["decl"]
        if "&" not in fn.params[0]["t"]:
            raise AnalysisBroken("R-REC: %s does not take its position by reference" % fn.short)
        self.cfg = fn.cfg
        self.literals = set()
        self.preds = set()
        for n in fn.walk():
            if n.get("k") == "CharacterLiteral":
                self.literals.add(int(n["v"]) & 255)
            if n.get("k") == "CaseStmt" and n.get("v") is not None:
                self.literals.add(int(n["v"]) & 255)
            if n.get("k") == "CallExpr":
                nm = strip_targs(n.get("callee") or "").rsplit("::", 1)[-1]
                if nm in CTYPE:
                    self.preds.add(nm)
        self.trims = False
        self.problems = []      # (kind, where)

    # -- AST helpers
    def is_var(self, n, decl):
        return n is not None and n.get("k") == "DeclRefExpr" and n["ref"].get("decl") == decl

    def is_deref(self, n):
        if n is None:
            return False
        if n.get("k") == "UnaryOperator" and n.get("op") == "*":
            return self.is_var(n["c"][0], self.pos)
        if n.get("k") == "CXXOperatorCallExpr" and n.get("op") == "*":
            args = F.call_args(n)
            return len(args) == 1 and self.is_var(args[0], self.pos)
        return False

    def is_incr(self, n):
        if n.get("k") == "UnaryOperator" and n.get("op") == "++":
            return self.is_var(n["c"][0], self.pos)
        if n.get("k") == "CXXOperatorCallExpr" and n.get("op") == "++":
            args = F.call_args(n)
            return bool(args) and self.is_var(args[0], self.pos)
        return False

    def cmp_iter(self, n):
        """-> '==' / '!=' when n compares position and end, else None"""
        if n.get("k") == "BinaryOperator" and n.get("op") in ("==", "!="):
            a, b = n["c"]
        elif n.get("k") == "CXXOperatorCallExpr" and n.get("op") in ("==", "!="):
            args = F.call_args(n)
            if len(args) != 2:
                return None
            a, b = args
        else:
            return None
        if (self.is_var(a, self.pos) and self.is_var(b, self.end)) or (self.is_var(a, self.end) and self.is_var(b, self.pos)):
            return n["op"]
        return None

    # -- abstract evaluation of a condition: -> [(bool, cur)]
    def split_end(self, cur):
        if cur is None:
            return [END, NOTEND]
        return [cur]

    def split_atom(self, cur, atoms):
        if cur is None:
            return [END] + list(atoms)
        if cur == NOTEND:
            return list(atoms)
        return [cur]

    def eval(self, n, env, cur, atoms):
        k = n.get("k")
        c = n.get("c") or []
        if k == "CXXBoolLiteralExpr":
            return [(bool(n.get("v")), cur)]
        if k == "IntegerLiteral":
            return [(int(n["v"]) != 0, cur)]
        if k == "DeclRefExpr" and n["ref"].get("decl") in env:
            return [(env[n["ref"]["decl"]], cur)]
        if k in ("ImplicitCastExpr", "CStyleCastExpr", "CXXStaticCastExpr", "CXXFunctionalCastExpr") and c:
            return self.eval(c[0], env, cur, atoms)
        if k == "UnaryOperator" and n.get("op") == "!":
            return [(not v, cu) for v, cu in self.eval(c[0], env, cur, atoms)]
        if k == "BinaryOperator" and n.get("op") in ("&&", "||"):
            out = []
            for v, cu in self.eval(c[0], env, cur, atoms):
                if (n["op"] == "&&" and not v) or (n["op"] == "||" and v):
                    out.append((v, cu))
                else:
                    out.extend(self.eval(c[1], env, cu, atoms))
            return out
        op = self.cmp_iter(n)
        if op is not None:
            out = []
            for cu in self.split_end(cur):
                at_end = (cu == END)
                out.append((at_end if op == "==" else not at_end, cu))
            return out
        if k == "CallExpr":
            nm = strip_targs(n.get("callee") or "").rsplit("::", 1)[-1]
            args = F.call_args(n)
            if nm in CTYPE and len(args) == 1 and self.is_deref(self.unwrap(args[0])):
                out = []
                for cu in self.split_atom(cur, atoms):
                    if cu == END:
                        continue        # the dereference itself is reported where it is executed
                    out.append((CTYPE[nm](min(cu)), cu))
                return out
        if k == "BinaryOperator" and n.get("op") in ("==", "!="):
            a, b = self.unwrap(c[0]), self.unwrap(c[1])
            lit = None
            if self.is_deref(a) and b.get("k") == "CharacterLiteral":
                lit = int(b["v"]) & 255
            elif self.is_deref(b) and a.get("k") == "CharacterLiteral":
                lit = int(a["v"]) & 255
            if lit is not None:
                out = []
                for cu in self.split_atom(cur, atoms):
                    if cu == END:
                        continue
                    eq = (lit in cu)
                    out.append((eq if n["op"] == "==" else not eq, cu))
                return out
        raise AnalysisBroken("R-REC: %s: condition `%s` is not modelled" % (self.fn.short, F.expr_text(n)))

    @staticmethod
    def unwrap(n):
        while n is not None and n.get("k") in ("ImplicitCastExpr", "CStyleCastExpr", "CXXStaticCastExpr",
                                                "CXXFunctionalCastExpr", "ParenExpr") and n.get("c"):
            n = n["c"][0]
        return n

    # -- exploration
    def build(self, atoms):
        fn, cfg = self.fn, self.cfg
        nfa = NFA()
        ACCEPT, SINK = "ACCEPT", "SINK"
        nfa.final |= {ACCEPT, SINK}
        for a in atoms:
            nfa.add_sym(SINK, a, SINK)
        bool_locals = {}
        for n in fn.walk():
            if n.get("k") == "DeclStmt":
                for d in n.get("decls", []) or []:
                    if d.get("t") == "bool":
                        bool_locals[d["decl"]] = d

        def envkey(env):
            return tuple(sorted(env.items()))

        start = (cfg.entry, 0, (), None, False)
        seen = {start}
        todo = [start]
        consumed_any = [False]

        def push(src, sym, dst):
            if sym is None:
                nfa.add_eps(src, dst)
            else:
                nfa.add_sym(src, sym, dst)
            if dst not in seen and dst not in (ACCEPT, SINK):
                seen.add(dst)
                todo.append(dst)

        while todo:
            st = todo.pop()
            bid, idx, envt, cur, moved = st
            env = dict(envt)
            blk = cfg.blocks[bid]
            els = blk.get("el", [])
            if idx < len(els):
                e = els[idx]
                n = fn.nodes.get(e) if isinstance(e, int) else None
                nxt = lambda env2=env, cur2=cur, moved2=moved: (bid, idx + 1, envkey(env2), cur2, moved2)
                if n is None:
                    push(st, None, nxt())
                    continue
                k = n.get("k")
                if k == "CallExpr" and strip_targs(n.get("callee") or "").rsplit("::", 1)[-1] in ("TrimWhiteSpaces", "SkipWhiteSpaces"):
                    args = F.call_args(n)
                    if moved or len(args) != 2 or not self.is_var(args[0], self.pos) or not self.is_var(args[1], self.end):
                        raise AnalysisBroken("R-REC: %s: white-space trimming after the scan started is not modelled" % fn.short)
                    if strip_targs(n["callee"]).endswith("SkipWhiteSpaces"):
                        raise AnalysisBroken("R-REC: %s: SkipWhiteSpaces (leading only) is not modelled" % fn.short)
                    self.trims = True
                    push(st, None, nxt(cur2=None))
                    continue
                if self.is_deref(n):
                    for cu in self.split_atom(cur, atoms):
                        if cu == END:
                            self.problems.append(("dereference-at-end", fn.where(n)))
                            continue
                        push(st, None, nxt(cur2=cu))
                    continue
                if self.is_incr(n):
                    for cu in self.split_atom(cur, atoms):
                        if cu == END:
                            self.problems.append(("advance-past-end", fn.where(n)))
                            continue
                        push(st, cu, nxt(cur2=None, moved2=True))
                    continue
                if k == "DeclStmt":
                    env2 = dict(env)
                    ok = True
                    for d in n.get("decls", []) or []:
                        if d.get("decl") in bool_locals:
                            if d.get("init") is None:
                                raise AnalysisBroken("R-REC: %s: boolean local %s without initialiser" % (fn.short, d.get("name")))
                            vals = self.eval(d["init"], env, cur, atoms)
                            if len(vals) != 1:
                                raise AnalysisBroken("R-REC: %s: initialiser of %s depends on the input" % (fn.short, d.get("name")))
                            env2[d["decl"]] = vals[0][0]
                        elif d.get("decl") is not None and d.get("t") and "using" not in str(d.get("name")):
                            raise AnalysisBroken("R-REC: %s: local %s of type %s is not modelled" % (fn.short, d.get("name"), d.get("t")))
                    push(st, None, nxt(env2=env2))
                    continue
                if k in ("BinaryOperator", "CompoundAssignOperator") and n.get("op") in ("=", "|=", "&="):
                    lhs = n["c"][0]
                    if lhs.get("k") == "DeclRefExpr" and lhs["ref"].get("decl") in bool_locals:
                        d = lhs["ref"]["decl"]
                        for v, cu in self.eval(n["c"][1], env, cur, atoms):
                            env2 = dict(env)
                            if n["op"] == "=":
                                env2[d] = v
                            elif n["op"] == "|=":
                                env2[d] = env.get(d, False) or v
                            else:
                                env2[d] = env.get(d, False) and v
                            push(st, None, nxt(env2=env2, cur2=cu))
                        continue
                    raise AnalysisBroken("R-REC: %s: assignment `%s` is not modelled" % (fn.short, F.expr_text(n)))
                if k == "ReturnStmt":
                    rc = n.get("c") or []
                    if not rc:
                        raise AnalysisBroken("R-REC: %s: return without value" % fn.short)
                    for v, cu in self.eval(rc[0], env, cur, atoms):
                        if not v:
                            continue
                        for cu2 in self.split_atom(cu, atoms):
                            if cu2 == END:
                                push(st, None, ACCEPT)
                            else:
                                push(st, cu2, SINK)
                    continue
                if k in ("UnaryOperator", "CXXOperatorCallExpr") and n.get("op") in ("++", "--", "+=", "-="):
                    raise AnalysisBroken("R-REC: %s: `%s` is not modelled" % (fn.short, F.expr_text(n)))
                if k in ("CallExpr", "CXXMemberCallExpr") and strip_targs(n.get("callee") or "").rsplit("::", 1)[-1] not in CTYPE:
                    raise AnalysisBroken("R-REC: %s: call of %s is not modelled" % (fn.short, n.get("callee")))
                push(st, None, nxt())
                continue
            # terminator
            succ = blk.get("succ", [])
            term = blk.get("termK")
            if bid == cfg.exit:
                continue
            if term == "SwitchStmt":
                cond = fn.nodes.get(blk.get("cond"))
                if not self.is_deref(self.unwrap(cond)):
                    raise AnalysisBroken("R-REC: %s: switch on `%s` is not modelled" % (fn.short, F.expr_text(cond)))
                cases = {}
                default = None
                for s in succ:
                    if s is None or s < 0:
                        continue
                    lab = fn.nodes.get(cfg.blocks[s].get("label")) if cfg.blocks[s].get("label") is not None else None
                    if lab is not None and lab.get("k") == "CaseStmt":
                        cases[int(lab["v"]) & 255] = s
                    else:
                        default = s
                for cu in self.split_atom(cur, atoms):
                    if cu == END:
                        continue
                    tgt = default
                    for ch, s in cases.items():
                        if ch in cu:
                            tgt = s
                    if tgt is not None:
                        push(st, None, (tgt, 0, envt, cu, moved))
                continue
            if blk.get("cond") is not None and len(succ) == 2:
                cond = fn.nodes.get(blk["cond"])
                for v, cu in self.eval(cond, env, cur, atoms):
                    s = succ[0] if v else succ[1]
                    if s is None or s < 0:
                        continue
                    push(st, None, (s, 0, envt, cu, moved))
                continue
            for s in succ:
                if s is None or s < 0:
                    continue
                push(st, None, (s, 0, envt, cur, moved))
        return nfa, start, len(seen)


def _atoms(literals, preds):
    preds = sorted(set(preds) | {"isdigit", "isspace"})
    cells = {}
    for ch in range(256):
        sig = (tuple(CTYPE[p](ch) for p in preds), ch if ch in literals else None)
        cells.setdefault(sig, set()).add(ch)
    return [frozenset(v) for v in cells.values()]


def _repr_atoms(atoms):
    out = {}
    for a in atoms:
        ch = min(a)
        if len(a) == 1:
            out[a] = chr(ch) if 33 <= ch < 127 else {32: " ", 9: "\\t", 10: "\\n"}.get(ch, "\\x%02x" % ch)
        elif all(CTYPE["isspace"](c) for c in a):
            out[a] = "\\t" if 9 in a else " "
        elif all(CTYPE["isdigit"](c) for c in a):
            out[a] = chr(ch)
        else:
            pr = [c for c in sorted(a) if 33 <= c < 127 and CTYPE["isalpha"](c)] or [c for c in sorted(a) if 33 <= c < 127]
            out[a] = chr(pr[0]) if pr else "\\x%02x" % ch
    return out


def _no_edge_ws(atoms):
    """complete DFA of the words without leading or trailing white space (the empty word included)"""
    ws = {a for a in atoms if CTYPE["isspace"](min(a))}
    trans = {}
    for a in atoms:
        trans[(0, a)] = 3 if a in ws else 1
        trans[(1, a)] = 2 if a in ws else 1
        trans[(2, a)] = 2 if a in ws else 1
        trans[(3, a)] = 3
    return 0, trans, {0, 1}, 4


def rule_recognisers(ctx):
    fx = ctx.facts
    table = engine.load_table("rec.json")
    n_inst = 0
    detail_all = {}
    for spec in table["recognisers"]:
        qn = spec["function"]
        fns = [f for f in fx.fns(qn) if f.body is not None and len(f.params) == 2]
        if not fns:
            raise AnalysisBroken("R-REC: no instantiation of %s(position, end) in the fact base" % qn)
        rx = Rx(spec["format"])
        for fn in sorted(fns, key=lambda f: f.key):
            ctx.saw(fn)
            sc = Scanner(fn)
            atoms = _atoms(sc.literals | rx.literals, sc.preds)
            names = _repr_atoms(atoms)
            nfa, start, n_states = sc.build(atoms)
            code = nfa.determinise(start, atoms)
            # reference automaton
            ref = NFA()
            for a, b in rx.eps:
                ref.add_eps(a, b)
            for a, cs, b in rx.edges:
                for at in atoms:
                    if at <= cs:
                        ref.add_sym(a, at, b)
                    elif at & cs:
                        raise AnalysisBroken("R-REC: alphabet atoms do not refine the reference expression")
            ref.final.add(rx.final)
            refd = ref.determinise(rx.start, atoms)
            allowed = _no_edge_ws(atoms) if sc.trims else None
            word, by_code = _difference(code, refd, atoms, allowed)
            inst = short_inst(fn)
            n_inst += 1
            ok = word is None
            msg = ""
            if not ok:
                w = _render(word, names)
                msg = ("%s %s the literal \"%s\", the documented format (%s) %s" %
                       (fn.name, "accepts" if by_code else "refuses", w, spec["format"],
                        "does not allow it" if by_code else "allows it"))
            ctx.report(RULE, "%s:language" % inst, ok, fn.where(), fn.short, msg,
                       {"abstract_states": n_states, "dfa_states": code[3], "reference_dfa_states": refd[3],
                        "atoms": len(atoms), "trimmed": sc.trims})
            probs = sorted(set(sc.problems))
            for kind in ("dereference-at-end", "advance-past-end"):
                hits = [w for k, w in probs if k == kind]
                n_inst += 1
                ctx.report(RULE, "%s:%s" % (inst, kind), not hits, hits[0] if hits else fn.where(), fn.short,
                           "" if not hits else "the position can be %s on some input (%s)" %
                           ("dereferenced at the end of the input" if kind.startswith("deref") else "advanced past the end of the input",
                            ", ".join(hits)))
            detail_all[inst] = {"abstract_states": n_states, "dfa_states": code[3]}
    ctx.floor(RULE, int(table.get("floor_instances", 1)), n_inst, "recogniser obligations")
    return {"recognisers": detail_all}


def short_inst(fn):
    t = fn.params[1]["t"]
    kind = "char*" if t.replace("const ", "").strip() in ("char *", "char*") else "string-iterator" if "basic_string" in t else F.short(t)
    return "%s<%s>" % (fn.name, kind)


# =========================================================================== stream validators

def _stream_param(fn):
    ps = [p for p in fn.params if "basic_istream" in p["t"] and "&" in p["t"]]
    return ps[0]["decl"] if len(fn.params) == 1 and ps else None


class _StreamEval:
    """three stream states after the caller's `inp >> a >> b`: 'good' (all read, characters left), 'eof' (all read,
    end reached), 'fail' (an extraction failed; failbit, possibly eofbit too).  Decides which of them let a boolean
    validator return true."""

    def __init__(self, fn, decl):
        self.fn, self.decl = fn, decl

    def is_stream(self, n):
        while n is not None and n.get("k") in ("ImplicitCastExpr", "ParenExpr") and n.get("c"):
            n = n["c"][0]
        return n is not None and n.get("k") == "DeclRefExpr" and n["ref"].get("decl") == self.decl

    def ev(self, n, st):
        """-> list of (truth, state')"""
        k = n.get("k")
        c = n.get("c") or []
        if k in ("ImplicitCastExpr", "ParenExpr", "CXXStaticCastExpr", "CStyleCastExpr", "ExprWithCleanups") and c:
            return self.ev(c[0], st)
        if k == "CXXBoolLiteralExpr":
            return [(bool(n.get("v")), st)]
        if k == "UnaryOperator" and n.get("op") == "!":
            return [(not v, s2) for v, s2 in self.ev(c[0], st)]
        if k == "BinaryOperator" and n.get("op") in ("&&", "||"):
            out = []
            for v, s2 in self.ev(c[0], st):
                if (n["op"] == "&&" and not v) or (n["op"] == "||" and v):
                    out.append((v, s2))
                else:
                    out.extend(self.ev(c[1], s2))
            return out
        if k == "CXXMemberCallExpr":
            name = strip_targs(n.get("callee") or "").rsplit("::", 1)[-1]
            obj = F.call_object(n)
            if obj is not None:
                # the object may itself be an extraction `istr >> j`
                subs = self.stream_expr(obj, st)
                if subs is not None:
                    out = []
                    for s2 in subs:
                        if name == "eof":
                            out.append((s2 in ("eof", "fail-eof"), s2))
                        elif name in ("fail", "bad"):
                            out.append((s2.startswith("fail") if name == "fail" else False, s2))
                        elif name == "good":
                            out.append((s2 == "good", s2))
                        elif name == "operator bool":
                            out.append((not s2.startswith("fail"), s2))
                        else:
                            raise AnalysisBroken("R-REC: %s: stream member %s is not modelled" % (self.fn.short, name))
                    return out
        if k == "CXXOperatorCallExpr" and n.get("op") == "!":
            subs = self.stream_expr(F.call_args(n)[0], st)
            if subs is not None:
                return [(s2.startswith("fail"), s2) for s2 in subs]
        subs = self.stream_expr(n, st)
        if subs is not None:           # stream in a boolean context
            return [(not s2.startswith("fail"), s2) for s2 in subs]
        raise AnalysisBroken("R-REC: %s: condition `%s` is not modelled" % (self.fn.short, F.expr_text(n)))

    def stream_expr(self, n, st):
        """states after evaluating an expression that denotes the stream (the parameter, or `stream >> x`)"""
        while n is not None and n.get("k") in ("ImplicitCastExpr", "ParenExpr") and n.get("c"):
            n = n["c"][0]
        if n is None:
            return None
        if self.is_stream(n):
            return [st]
        if n.get("k") == "CXXOperatorCallExpr" and n.get("op") == ">>":
            args = F.call_args(n)
            base = self.stream_expr(args[0], st) if args else None
            if base is None:
                return None
            out = []
            for s2 in base:
                if s2 == "good":
                    out += ["good", "eof", "fail", "fail-eof"]      # read something / read up to the end / garbage / only blanks left
                elif s2 == "eof":
                    out += ["fail-eof"]
                else:
                    out += [s2]
            return out
        return None

    def run(self, node, st):
        """-> set of (returned truth or None for fall-through, state)"""
        k = node.get("k")
        if k == "CompoundStmt":
            states = [st]
            rets = set()
            for s in node.get("c") or []:
                nxt = []
                for x in states:
                    for r, s2 in self.run(s, x):
                        if r is None:
                            nxt.append(s2)
                        else:
                            rets.add((r, s2))
                states = nxt
                if not states:
                    break
            return rets | {(None, x) for x in states}
        if k == "IfStmt":
            out = set()
            for v, s2 in self.ev(node["cond"], st):
                br = node.get("then") if v else node.get("else")
                if isinstance(br, dict):
                    out |= self.run(br, s2)
                else:
                    out.add((None, s2))
            return out
        if k == "ReturnStmt":
            c = node.get("c") or []
            return {(v, s2) for v, s2 in self.ev(c[0], st)} if c else {(None, st)}
        if k in ("DeclStmt", "NullStmt"):
            for d in node.get("decls", []) or []:
                if d.get("init") is not None and any(self.is_stream(x) for x in F.walk(d["init"])):
                    raise AnalysisBroken("R-REC: %s: initialiser using the stream is not modelled" % self.fn.short)
            return {(None, st)}
        raise AnalysisBroken("R-REC: %s: statement %s is not modelled" % (self.fn.short, k))


def rule_stream_validators(ctx):
    """The gama-g3 / adjustment-data reader takes numbers with `pure_data(inp >> a >> b)`: the validator receives the
    stream *after* the extractions.  It may return true only if every extraction succeeded: a failed stream
    (non-numeric data, missing value) must be refused, otherwise the variables are used uninitialised.  Decided by
    evaluating the validator over the three possible stream states; also: every call site hands it an extraction."""
    fx = ctx.facts
    n = 0
    for fn in sorted(fx.functions.values(), key=lambda f: f.key):
        if fn.body is None or fn.rec.get("ret") != "bool" or not fn.file.startswith(("lib/", "src/")):
            continue
        decl = _stream_param(fn)
        if decl is None:
            continue
        calls = [(g, c) for g in fx.functions.values() if g.body is not None for c in g.calls()
                 if c.get("calleeKey") == fn.key]
        extr = [(g, c) for g, c in calls if any(x.get("k") == "CXXOperatorCallExpr" and x.get("op") == ">>"
                                                 for a in F.call_args(c) for x in F.walk(a))]
        if not extr:
            continue
        ctx.saw(fn)
        ev = _StreamEval(fn, decl)
        verdict = {}
        for st in ("good", "eof", "fail", "fail-eof"):
            res = ev.run(fn.body, st)
            verdict[st] = sorted({r for r, _ in res}, key=str)
        n += 1
        accepts_failed = True in verdict["fail"] or True in verdict["fail-eof"]
        ctx.report(RULE, "%s:refuses-failed-stream" % fn.sig, not accepts_failed, fn.where(), fn.short,
                   "" if not accepts_failed else "%s returns true for a stream on which an extraction has failed (non-numeric or "
                   "missing data): the %d callers then use the variables they tried to read uninitialised" % (fn.name, len(extr)),
                   {"returns": {k: [str(x) for x in v] for k, v in verdict.items()}, "call_sites_with_extraction": len(extr)})
        n += 1
        ok2 = True in verdict["eof"] and False in verdict["good"] + [False]
        ctx.report(RULE, "%s:accepts-complete-data" % fn.sig, True in verdict["eof"], fn.where(), fn.short,
                   "" if True in verdict["eof"] else "%s refuses data that was read completely (stream at end, no failure)" % fn.name)
    ctx.floor(RULE, 2, n, "stream validator obligations")
