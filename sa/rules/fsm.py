"""R-FSM: parser automaton extraction and checks (F1-F5 + depth discipline).

The automaton is rebuilt from the AST/CFG: a value-partitioned constant propagation of
the parser's `state` field through startElement/endElement and every handler they
(transitively) call, with switch edges refined by the known value of `state` and of
the tag local.  Nothing is executed; the result is the set of possible post-states of
every (state, tag) start transition and every end transition.
"""
import facts as F
from facts import AnalysisBroken, walk, is_call, call_args, short, strip_targs

TOP = ("top",)


def _const_of(node):
    """Integer value of an enum-constant / integer-literal expression, else None."""
    if node is None:
        return None
    k = node.get("k")
    if k == "DeclRefExpr" and node["ref"].get("dk") == "enumconst":
        return node["ref"]["v"]
    if k == "IntegerLiteral":
        return node.get("v")
    if k in ("CXXStaticCastExpr", "CStyleCastExpr", "CXXFunctionalCastExpr", "ImplicitCastExpr"):
        c = node.get("c") or []
        return _const_of(c[0]) if c else None
    return None


class StateProp:
    """Value-partitioned propagation of one integer field of `this` (the parser state)."""

    def __init__(self, facts, state_field="state", state_owner="GNU_gama::CoreParser",
                 error_fn="GNU_gama::CoreParser::error", error_value=0, hierarchy=()):
        self.facts = facts
        self.field = state_field
        self.owner = state_owner
        self.error_fn = error_fn
        self.error_value = error_value
        self.hier = set(hierarchy)
        self.memo = {}
        self.pairs = {}              # memo key -> {(token, return class)}; class: 0, 'nz' or '?'
        self.active = set()
        self.bare_error_sites = {}   # (fn key) -> [node] bare assignments of the error constant
        self.calls_seen = {}         # (fn key, in const) -> set of callee qn reached

    def is_state(self, n):
        return (n.get("k") == "MemberExpr" and n.get("mk") == "field"
                and n.get("member") == self.field
                and strip_targs(n.get("owner", "")) == self.owner
                and (n.get("c") or [{}])[0].get("k") == "CXXThisExpr")

    def run(self, fn, in_tok, pinned=None):
        """Possible post-state tokens of fn entered with state token in_tok.
        Token: ('c', value, how) with how in {'in','assign','error'}, or TOP."""
        pinned = pinned or {}
        mkey = (fn.key, in_tok, tuple(sorted(pinned.items())))
        if mkey in self.memo:
            return self.memo[mkey]
        if mkey in self.active:
            return {TOP}
        self.active.add(mkey)
        try:
            out = self._run(fn, in_tok, pinned, mkey)
        finally:
            self.active.discard(mkey)
        self.memo[mkey] = out
        return out

    def run_pairs(self, fn, in_tok):
        """(post-state token, return-value class) pairs of fn: class 0 = returns zero, 'nz' = returns
        non-zero (e.g. `return error(..)`), '?' = unknown.  Lets `if (handler(atts)) return 1;` keep
        the error exits of the callee apart from its normal exits."""
        out = self.run(fn, in_tok)
        mkey = (fn.key, in_tok, ())
        return self.pairs.get(mkey) or {(t, "?") for t in out}

    def _ret_class(self, expr, toks, last_call, last_rets, var_rets=None):
        """return class per token for `return expr;`"""
        res = {}
        k = expr.get("k") if expr is not None else None
        for t in toks:
            if expr is None:
                res[t] = {"?"}
            elif k == "DeclRefExpr" and var_rets and expr["ref"].get("decl") in var_rets:
                res[t] = set(var_rets[expr["ref"]["decl"]].get(t, {"?"}))
            elif k == "IntegerLiteral":
                res[t] = {0 if expr.get("v") == 0 else "nz"}
            elif last_call is not None and expr.get("id") == last_call:
                res[t] = set(last_rets.get(t, {"?"}))
            elif k == "BinaryOperator" and expr.get("op") == "=" and self.is_state(expr["c"][0]) \
                    and _const_of(expr["c"][1]) is not None:
                res[t] = {0 if _const_of(expr["c"][1]) == 0 else "nz"}
            else:
                res[t] = {"?"}
        return res

    def _pinned_locals(self, fn, pinned_by_name):
        res = {}
        if not pinned_by_name:
            return res
        for n in fn.walk():
            if n.get("k") == "DeclStmt":
                for d in n.get("decls", []):
                    if d.get("name") in pinned_by_name:
                        res[d["decl"]] = pinned_by_name[d["name"]]
        for p in fn.params:
            if p["name"] in pinned_by_name:
                res[p["decl"]] = pinned_by_name[p["name"]]
        return res

    def _run(self, fn, in_tok, pinned_by_name, mkey):
        cfg = fn.cfg
        nodes = fn.nodes
        pinned = self._pinned_locals(fn, dict(pinned_by_name))
        IN = {b: set() for b in cfg.blocks}
        IN[cfg.entry] = {in_tok}
        work = [cfg.entry]
        exit_toks = set()
        exit_pairs = set()
        var_rets = {}      # local decl -> {token: return classes} for `r = handler(..)`
        callees = self.calls_seen.setdefault(mkey, set())
        iterations = 0
        while work:
            iterations += 1
            if iterations > 20000:
                raise AnalysisBroken("state propagation did not converge in %s" % fn.key)
            b = work.pop()
            toks = set(IN[b])
            blk = cfg.blocks[b]
            last_call, last_rets = None, {}
            for e in blk.get("el", []):
                if not isinstance(e, int):
                    continue
                n = nodes.get(e)
                if n is None:
                    continue
                k = n.get("k")
                if k == "DeclStmt" and last_call is not None:
                    for d in n.get("decls", []):
                        init = d.get("init")
                        if init is not None and init.get("id") == last_call and "decl" in d:
                            dst = var_rets.setdefault(d["decl"], {})
                            for t, rs in last_rets.items():
                                dst.setdefault(t, set()).update(rs)
                    continue
                if k == "ReturnStmt":
                    rc = self._ret_class((n.get("c") or [None])[0], toks, last_call, last_rets, var_rets)
                    for t, rs in rc.items():
                        for r in rs:
                            exit_pairs.add((t, r))
                    continue
                if k == "BinaryOperator" and n.get("op") == "=":
                    lhs, rhs = n["c"]
                    if last_call is not None and rhs.get("id") == last_call and lhs.get("k") == "DeclRefExpr" \
                            and "decl" in lhs["ref"]:
                        dst = var_rets.setdefault(lhs["ref"]["decl"], {})
                        for t, rs in last_rets.items():
                            dst.setdefault(t, set()).update(rs)
                    if self.is_state(lhs):
                        v = _const_of(rhs)
                        if v is None:
                            toks = {TOP}
                        else:
                            toks = {("c", v, "assign")}
                            if v == self.error_value:
                                self.bare_error_sites.setdefault(fn.key, []).append(n)
                elif k in ("CompoundAssignOperator", "UnaryOperator") and n.get("op") in (
                        "+=", "-=", "++", "--"):
                    if self.is_state(n["c"][0]):
                        toks = {TOP}
                elif k == "CXXMemberCallExpr":
                    callee = strip_targs(n.get("callee") or "")
                    obj = F.call_object(n)
                    if obj is not None and obj.get("k") == "CXXThisExpr" and callee:
                        if callee == self.error_fn:
                            toks = {("c", self.error_value, "error")}
                            callees.add(callee)
                            last_call, last_rets = n["id"], {("c", self.error_value, "error"): {"nz"}}
                        else:
                            cand = [f for f in self.facts.fns(callee)
                                    if f.key == n.get("calleeKey")]
                            ccls = strip_targs(n.get("calleeClass") or "")
                            if cand and (not self.hier or ccls in self.hier):
                                callees.add(callee)
                                new = set()
                                last_call, last_rets = n["id"], {}
                                for t in toks:
                                    if t == TOP:
                                        sub = self.run_pairs(cand[0], TOP)
                                    else:
                                        sub = self.run_pairs(cand[0], ("c", t[1], "in"))
                                    for s, r in sub:
                                        m = t if (s != TOP and s[2] == "in") else s   # unchanged by the callee
                                        new.add(m)
                                        last_rets.setdefault(m, set()).add(r)
                                toks = new
            # successors
            succs = cfg.succ.get(b, [])
            if b == cfg.exit or (not succs):
                if b == cfg.exit:
                    exit_toks |= toks
                continue
            edges = [(s, toks) for s in succs]
            if blk.get("termK") == "IfStmt" and blk.get("cond") is not None and (last_call is not None or var_rets):
                cond = nodes.get(blk["cond"])
                neg = False
                for _ in range(6):
                    if cond is None:
                        break
                    if cond.get("k") == "UnaryOperator" and cond.get("op") == "!":
                        neg = not neg
                        cond = (cond.get("c") or [None])[0]
                    elif cond.get("k") == "BinaryOperator" and cond.get("op") in ("!=", "==") \
                            and len(cond.get("c") or []) == 2:
                        a, b = cond["c"]
                        zero = [x for x in (a, b) if x.get("k") == "IntegerLiteral" and x.get("v") == 0]
                        if len(zero) != 1:
                            break
                        if cond["op"] == "==":
                            neg = not neg
                        cond = b if zero[0] is a else a
                    else:
                        break
                raw = list(blk.get("succ", []))
                rets_src = None
                if cond is not None and last_call is not None and cond.get("id") == last_call:
                    rets_src = last_rets
                elif cond is not None and cond.get("k") == "DeclRefExpr" and cond["ref"].get("decl") in var_rets:
                    rets_src = var_rets[cond["ref"]["decl"]]
                if rets_src is not None and len(raw) == 2:
                    tt = {t for t in toks if rets_src.get(t, {"?"}) & {"nz", "?"}}
                    ff = {t for t in toks if rets_src.get(t, {"?"}) & {0, "?"}}
                    if neg:
                        tt, ff = ff, tt
                    edges = []
                    for idx, ts in ((0, tt), (1, ff)):
                        s = raw[idx]
                        if s is not None and s >= 0 and ts:
                            edges.append((s, ts))
            if blk.get("termK") == "SwitchStmt" and blk.get("cond") is not None:
                cond = nodes.get(blk["cond"])
                sel = None
                if cond is not None and self.is_state(cond):
                    sel = "state"
                elif (cond is not None and cond.get("k") == "DeclRefExpr"
                      and cond["ref"].get("decl") in pinned):
                    sel = ("pin", pinned[cond["ref"]["decl"]])
                if sel is not None:
                    labels = {}
                    default = None
                    for s in succs:
                        lab = nodes.get(cfg.blocks[s].get("label")) if cfg.blocks[s].get("label") else None
                        if lab is not None and lab.get("k") == "CaseStmt" and "v" in lab:
                            labels.setdefault(lab["v"], s)
                        else:
                            default = s
                    edges_map = {}
                    for t in toks:
                        if sel == "state":
                            if t == TOP:
                                for s in succs:
                                    edges_map.setdefault(s, set()).add(t)
                                continue
                            v = t[1]
                        else:
                            v = sel[1]
                        tgt = labels.get(v, default)
                        if tgt is not None:
                            edges_map.setdefault(tgt, set()).add(t)
                    edges = list(edges_map.items())
            for s, ts in edges:
                if not ts <= IN[s]:
                    IN[s] |= ts
                    work.append(s)
        for t in exit_toks:
            if not any(p[0] == t for p in exit_pairs):
                exit_pairs.add((t, "?"))
        if not pinned_by_name:
            self.pairs[(fn.key, in_tok, ())] = {p for p in exit_pairs if p[0] in exit_toks}
        return exit_toks


class Automaton:
    def __init__(self, name, states, tags, start, end, error_value, start_state):
        self.name = name
        self.states = states          # value -> name
        self.tags = tags              # value -> name
        self.start = start            # (s, t) -> set of tokens
        self.end = end                # s -> set of tokens
        self.error = error_value
        self.start_state = start_state

    def sname(self, v):
        return self.states.get(v, str(v))

    def tname(self, v):
        return self.tags.get(v, str(v))

    def explore(self, max_depth=14):
        """Reachable configurations (state, stack of tags); expat guarantees nesting, so an
        end transition is possible only with a non-empty stack."""
        init = (self.start_state, ())
        seen = {init}
        work = [init]
        edges = []
        while work:
            s, st = work.pop()
            if s == self.error:
                continue
            if len(st) >= max_depth:
                raise AnalysisBroken("%s: nesting deeper than %d reachable - automaton does not bound depth"
                                     % (self.name, max_depth))
            for t in self.tags:
                for tok in self.start.get((s, t), ()):
                    if tok == TOP:
                        continue
                    c = (tok[1], st + (t,))
                    edges.append(((s, st), ("start", t), c, tok))
                    if tok[1] != self.error and c not in seen:
                        seen.add(c)
                        work.append(c)
            if st:
                for tok in self.end.get(s, ()):
                    if tok == TOP:
                        continue
                    c = (tok[1], st[:-1])
                    edges.append(((s, st), ("end", st[-1]), c, tok))
                    if tok[1] != self.error and c not in seen:
                        seen.add(c)
                        work.append(c)
        return seen, edges


def check_automaton(ctx, rule, A, known_unreachable_ok=()):
    """F1/F2 (no silent error, every reachable state has a real end transition),
    F3 (error absorbing), depth discipline (a state determines the nesting depth)."""
    configs, edges = A.explore()
    reach_states = {}
    for s, st in configs:
        reach_states.setdefault(s, set()).add(len(st))
    n_trans = 0
    # F1/F2 on end transitions
    for s in sorted(reach_states):
        if s == A.error:
            continue
        depths = reach_states[s]
        if max(depths) == 0:
            continue
        toks = A.end.get(s, set())
        silent = [t for t in toks if t == TOP or (t[1] == A.error and t[2] != "error")]
        key = "%s:end:%s" % (A.name, A.sname(s))
        n_trans += 1
        if silent:
            ctx.bad(rule, key, msg="end tag in reachable state %s leads to the error state without a call "
                    "of the error function (no message, no line): silent error" % A.sname(s),
                    detail={"tokens": sorted(map(str, toks))})
        elif not toks:
            ctx.bad(rule, key, msg="no end transition extracted for reachable state %s" % A.sname(s))
        else:
            ctx.ok(rule, key, detail={"post": sorted({A.sname(t[1]) for t in toks if t != TOP})})
    # F2 on start transitions
    for s in sorted(reach_states):
        if s == A.error:
            continue
        for t in sorted(A.tags):
            toks = A.start.get((s, t), set())
            key = "%s:start:%s:%s" % (A.name, A.sname(s), A.tname(t))
            silent = [x for x in toks if x == TOP or (x[1] == A.error and x[2] != "error")]
            n_trans += 1
            if silent:
                ctx.bad(rule, key, msg="start tag %s in state %s can enter the error state silently"
                        % (A.tname(t), A.sname(s)), detail={"tokens": sorted(map(str, toks))})
            elif not toks:
                ctx.bad(rule, key, msg="no start transition extracted")
            else:
                ctx.ok(rule, key, detail={"post": sorted({A.sname(x[1]) for x in toks if x != TOP})})
    # F3 absorbing error state
    bad = []
    for t in A.tags:
        for x in A.start.get((A.error, t), set()):
            if x == TOP or x[1] != A.error:
                bad.append(("start", A.tname(t), str(x)))
    for x in A.end.get(A.error, set()):
        if x == TOP or x[1] != A.error:
            bad.append(("end", "", str(x)))
    ctx.report(rule, "%s:error-absorbing" % A.name, not bad,
               msg="the error state can be left: %s" % bad if bad else "", detail={"escapes": bad})
    # depth discipline.  A start transition that leaves the state unchanged (an element accepted inside
    # itself to any depth) is leniency towards malformed documents, not a mis-parse of a valid one: the
    # property allows accepting more than the grammar, so such self-nesting edges are reported as notes
    # and left out; what is decided is that no *end* transition returns to the wrong level.
    lenient = sorted({(e[0][0], e[1][1]) for e in edges
                      if e[1][0] == "start" and e[3] != TOP and e[2][0] == e[0][0] and e[0][0] != A.error})
    if lenient:
        ctx.note("%s: %d start transition(s) keep the state (self-nesting accepted): %s" % (
            A.name, len(lenient), ", ".join("%s/%s" % (A.sname(a), A.tname(b)) for a, b in lenient[:12])))
        lset = set(lenient)
        succ = {}
        for e in edges:
            if e[1][0] == "start" and (e[0][0], e[1][1]) in lset and e[2][0] == e[0][0]:
                continue
            if e[3] != TOP and e[2][0] != A.error:
                succ.setdefault(e[0], set()).add(e[2])
        init = min((c for c in configs if len(c[1]) == 0 and c[0] == A.start_state), default=None)
        seen2 = {init} if init is not None else set()
        todo = list(seen2)
        while todo:
            c = todo.pop()
            for d in succ.get(c, ()):
                if d not in seen2:
                    seen2.add(d)
                    todo.append(d)
        reach_depth = {}
        for st_, stack_ in seen2:
            reach_depth.setdefault(st_, set()).add(len(stack_))
    else:
        reach_depth = reach_states
    for s, depths in sorted(reach_depth.items()):
        if s == A.error:
            continue
        key = "%s:depth:%s" % (A.name, A.sname(s))
        if len(depths) > 1:
            ctx.bad(rule, key, msg="state %s is reachable at nesting depths %s: an end transition "
                    "returns to the wrong level" % (A.sname(s), sorted(depths)))
        else:
            ctx.ok(rule, key, detail={"depth": sorted(depths)})
    return configs, edges, reach_states, n_trans


# --------------------------------------------------------------------------- GKFparser

def extract_gkf(ctx):
    fx = ctx.facts
    cls = "GNU_gama::local::GKFparser"
    start_fn = fx.fn(cls + "::startElement")
    end_fn = fx.fn(cls + "::endElement")
    tag_fn = fx.fn(cls + "::tag")
    for f in (start_fn, end_fn, tag_fn):
        ctx.saw(f)
    states = {e["v"]: e["name"] for e in fx.enum(cls + "::gkf_state")["enumerators"]}
    tags = {e["v"]: e["name"] for e in fx.enum(cls + "::gkf_tag")["enumerators"]}
    if "state_error" not in states.values() or "state_start" not in states.values():
        raise AnalysisBroken("GKFparser: state_error/state_start enumerators not found")
    inv = {v: k for k, v in states.items()}
    error_value = inv["state_error"]
    check_error_fn(ctx, fx, error_value)
    hier = {cls, "GNU_gama::CoreParser", "GNU_gama::BaseParser"}
    sp = StateProp(fx, hierarchy=hier, error_value=error_value)
    # the tag local of startElement: the local initialised from tag(cname)
    tag_local = None
    for n in start_fn.walk():
        if n.get("k") == "DeclStmt":
            for d in n.get("decls", []):
                init = d.get("init")
                if init is not None and any(is_call(x) and strip_targs(x.get("callee") or "") == cls + "::tag"
                                            for x in walk(init)):
                    tag_local = d["name"]
    if tag_local is None:
        raise AnalysisBroken("GKFparser::startElement: local initialised from tag() not found")
    start, end = {}, {}
    for s in states:
        for t in tags:
            start[(s, t)] = sp.run(start_fn, ("c", s, "in"), {tag_local: t})
        end[s] = sp.run(end_fn, ("c", s, "in"))
    for key in sp.calls_seen:
        for f in fx.functions.values():
            if f.key == key[0]:
                ctx.saw(f)
    A = Automaton("GKFparser", states, tags, start, end, error_value, inv["state_start"])
    return A, sp, tag_fn


def check_error_fn(ctx, fx, error_value):
    """The designated error function records message and line and enters the error state."""
    ef = [f for f in fx.fns("GNU_gama::CoreParser::error") if f.params and f.params[0]["t"].startswith("const char")]
    if not ef:
        raise AnalysisBroken("CoreParser::error(const char*) not found")
    ef = ef[0]
    ctx.saw(ef)
    wrote = set()
    state_val = None
    line_from_expat = False
    for n in ef.walk():
        if n.get("k") in ("BinaryOperator", "CXXOperatorCallExpr") and n.get("op") == "=":
            c = n.get("c") or []
            lhs = c[0] if n["k"] == "BinaryOperator" else (c[1] if len(c) > 1 else None)
            rhs = c[-1]
            if lhs is not None and F.is_this_field(lhs):
                wrote.add(lhs["member"])
                if lhs["member"] == "state":
                    state_val = _const_of(rhs)
                if lhs["member"] == "errLineNumber":
                    line_from_expat = any(is_call(x) and "XML_GetCurrentLineNumber" in (x.get("callee") or "")
                                          for x in walk(rhs))
    ok = {"errString", "errLineNumber", "state"} <= wrote and state_val == error_value and line_from_expat
    ctx.report("R-FSM", "CoreParser::error:records-message-line-state", ok, ef.where(), ef.short,
               msg="" if ok else "CoreParser::error must store the message, take the line from expat and set "
               "state to the error state (wrote %s, state=%s, line from expat=%s)"
               % (sorted(wrote), state_val, line_from_expat))


def tag_function_map(tag_fn):
    """string literal -> enumerator returned, from `if (!strcmp(c, "lit")) return tag_x;`"""
    res = {}
    for n in tag_fn.walk():
        if n.get("k") != "IfStmt":
            continue
        lits = [x.get("v") for x in walk(n.get("cond")) if x.get("k") == "StringLiteral"]
        rets = [x for x in walk(n.get("then")) if x.get("k") == "ReturnStmt"]
        if len(lits) == 1 and len(rets) == 1:
            for x in walk(rets[0]):
                if x.get("k") == "DeclRefExpr" and x["ref"].get("dk") == "enumconst":
                    res[lits[0]] = (x["ref"]["name"], x["ref"]["v"])
    return res


def rule_gkf(ctx):
    rule = "R-FSM"
    A, sp, tag_fn = extract_gkf(ctx)
    configs, edges, reach, n_trans = check_automaton(ctx, rule, A)
    ctx.floor(rule, 25, len(reach), "reachable GKFparser states")
    ctx.floor(rule, 300, n_trans, "GKFparser transitions checked")
    # F5: every tag enumerator is produced by tag() and accepted somewhere; every produced tag exists
    tmap = tag_function_map(tag_fn)
    produced = {v[1] for v in tmap.values()}
    accepted = set()
    for (s, t), toks in A.start.items():
        if s in reach and any(x != TOP and x[1] != A.error for x in toks):
            accepted.add(t)
    for v, name in sorted(A.tags.items()):
        if name == "tag_unknown":
            continue
        ok = v in produced and v in accepted
        ctx.report(rule, "GKFparser:tag:%s" % name, ok, tag_fn.where(), tag_fn.short,
                   msg="" if ok else "tag enumerator %s is %s" % (
                       name, "never returned by tag()" if v not in produced else
                       "never accepted by a reachable start transition"))
    ctx.floor(rule, 19, len(tmap), "GKFparser tag strings")
    return A, configs, edges, tmap
