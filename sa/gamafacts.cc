// gamafacts - libTooling fact exporter for the gama static checks.
//
// Usage: gamafacts --froot=/repo --fout=facts.json [--ffilter=<regex>] <source> -- <compile flags>
//
// For every function *defined* in a file under <root> whose root-relative path
// matches <filter> (template instantiations included, dependent templates
// excluded) one JSON record is written: names, parameters, a simplified typed
// AST with resolved callees / members / declarations, and the clang CFG
// (BuildOptions::setAllAlwaysAdd).  Plus class, enum and global-variable records.
//
// Nothing of the analysed program is executed.

#include "clang/AST/ASTConsumer.h"
#include "clang/AST/ASTContext.h"
#include "clang/AST/DeclCXX.h"
#include "clang/AST/DeclTemplate.h"
#include "clang/AST/ExprCXX.h"
#include "clang/AST/RecursiveASTVisitor.h"
#include "clang/AST/StmtCXX.h"
#include "clang/Analysis/CFG.h"
#include "clang/Frontend/CompilerInstance.h"
#include "clang/Frontend/FrontendAction.h"
#include "clang/Tooling/CommonOptionsParser.h"
#include "clang/Tooling/Tooling.h"
#include "llvm/Support/CommandLine.h"
#include "llvm/Support/JSON.h"
#include "llvm/Support/Regex.h"
#include "llvm/Support/raw_ostream.h"

#include <map>
#include <set>
#include <string>

using namespace clang;
using namespace clang::tooling;
namespace json = llvm::json;

static llvm::cl::OptionCategory Cat("gamafacts options");
static llvm::cl::opt<std::string> OptRoot("froot", llvm::cl::desc("source root"),
                                          llvm::cl::init("/repo"), llvm::cl::cat(Cat));
static llvm::cl::opt<std::string> OptOut("fout", llvm::cl::desc("output json"),
                                         llvm::cl::Required, llvm::cl::cat(Cat));
static llvm::cl::opt<std::string> OptFilter("ffilter", llvm::cl::desc("regex on root-relative file"),
                                            llvm::cl::init(".*"), llvm::cl::cat(Cat));
static llvm::cl::opt<bool> OptNoBody("fnobody", llvm::cl::desc("omit AST/CFG"),
                                     llvm::cl::init(false), llvm::cl::cat(Cat));

namespace {

struct Exporter {
  ASTContext &Ctx;
  SourceManager &SM;
  PrintingPolicy PP;
  std::string Root;
  llvm::Regex Filter;

  json::Array Functions, Classes, Enums, Globals;
  std::set<std::string> SeenFn, SeenCls, SeenEnum, SeenGlob;
  std::map<const Decl *, int> DeclIds;
  int NextDecl = 1;

  Exporter(ASTContext &C)
      : Ctx(C), SM(C.getSourceManager()), PP(C.getLangOpts()), Root(OptRoot),
        Filter(OptFilter) {
    PP.SuppressTagKeyword = true;
    PP.Bool = true;
    PP.SuppressUnwrittenScope = true;
    if (!Root.empty() && Root.back() != '/')
      Root += '/';
  }

  // ---------------------------------------------------------------- helpers
  int declId(const Decl *D) {
    D = D->getCanonicalDecl();
    auto it = DeclIds.find(D);
    if (it != DeclIds.end())
      return it->second;
    return DeclIds[D] = NextDecl++;
  }

  // root-relative file of an (expansion) location, or "" when outside root
  std::string relFile(SourceLocation L) {
    if (L.isInvalid())
      return "";
    L = SM.getExpansionLoc(L);
    PresumedLoc P = SM.getPresumedLoc(L);
    if (P.isInvalid())
      return "";
    std::string F = P.getFilename();
    // normalise /repo/_build/../lib style is not expected; strip root prefix
    if (F.compare(0, Root.size(), Root) == 0)
      return F.substr(Root.size());
    return "";
  }
  unsigned lineOf(SourceLocation L) {
    if (L.isInvalid())
      return 0;
    return SM.getExpansionLineNumber(L);
  }
  unsigned colOf(SourceLocation L) {
    if (L.isInvalid())
      return 0;
    return SM.getExpansionColumnNumber(L);
  }

  std::string typeStr(QualType T) {
    if (T.isNull())
      return "";
    return T.getCanonicalType().getAsString(PP);
  }
  // canonical type without cv-qualifiers, references and pointers: the "core" class
  std::string coreType(QualType T) {
    if (T.isNull())
      return "";
    T = T.getCanonicalType();
    for (;;) {
      if (T->isReferenceType())
        T = T->getPointeeType();
      else if (T->isPointerType())
        T = T->getPointeeType();
      else
        break;
      T = T.getCanonicalType();
    }
    return T.getUnqualifiedType().getAsString(PP);
  }

  std::string qname(const NamedDecl *D) { return D->getQualifiedNameAsString(); }

  // qualified name of a record without template arguments
  std::string recName(const CXXRecordDecl *R) { return R ? R->getQualifiedNameAsString() : ""; }

  std::string qnameT(const NamedDecl *D) {
    std::string S;
    llvm::raw_string_ostream OS(S);
    D->getNameForDiagnostic(OS, PP, true);
    OS.flush();
    // for members of class template specialisations getNameForDiagnostic
    // already prints the arguments of the enclosing class
    return S;
  }

  std::string paramSig(const FunctionDecl *FD) {
    std::string S = "(";
    bool first = true;
    for (const ParmVarDecl *P : FD->parameters()) {
      if (!first)
        S += ", ";
      first = false;
      S += typeStr(P->getType());
    }
    S += ")";
    if (auto *M = dyn_cast<CXXMethodDecl>(FD))
      if (M->isConst())
        S += " const";
    return S;
  }
  std::string fnKey(const FunctionDecl *FD) { return qnameT(FD) + paramSig(FD); }

  const CXXRecordDecl *ownerOf(const Decl *D) {
    return dyn_cast_or_null<CXXRecordDecl>(D->getDeclContext());
  }

  // ---------------------------------------------------------------- AST
  struct FnState {
    std::map<const Stmt *, int> Ids;
    int Next = 1;
  };

  static const Stmt *skipTransparent(const Stmt *S) {
    for (;;) {
      if (!S)
        return S;
      if (auto *E = dyn_cast<ParenExpr>(S)) {
        S = E->getSubExpr();
        continue;
      }
      if (auto *E = dyn_cast<ImplicitCastExpr>(S)) {
        CastKind K = E->getCastKind();
        if (K == CK_FloatingToIntegral || K == CK_IntegralToFloating ||
            K == CK_UserDefinedConversion || K == CK_ConstructorConversion)
          return S;
        S = E->getSubExpr();
        continue;
      }
      if (auto *E = dyn_cast<ExprWithCleanups>(S)) {
        S = E->getSubExpr();
        continue;
      }
      if (auto *E = dyn_cast<MaterializeTemporaryExpr>(S)) {
        S = E->getSubExpr();
        continue;
      }
      if (auto *E = dyn_cast<CXXBindTemporaryExpr>(S)) {
        S = E->getSubExpr();
        continue;
      }
      if (auto *E = dyn_cast<ConstantExpr>(S)) {
        S = E->getSubExpr();
        continue;
      }
      if (auto *E = dyn_cast<CXXFunctionalCastExpr>(S)) {
        // T(x) written as a functional cast around a construct expr: keep
        return E;
      }
      return S;
    }
  }

  json::Value declInfo(const ValueDecl *D) {
    json::Object O;
    O["name"] = D->getNameAsString();
    if (isa<ParmVarDecl>(D)) {
      O["dk"] = "parm";
      O["decl"] = declId(D);
    } else if (auto *V = dyn_cast<VarDecl>(D)) {
      if (V->isLocalVarDecl()) {
        O["dk"] = V->isStaticLocal() ? "staticlocal" : "local";
        O["decl"] = declId(D);
      } else {
        O["dk"] = V->isStaticDataMember() ? "staticmember" : "global";
        O["qn"] = qname(D);
      }
    } else if (auto *F = dyn_cast<FunctionDecl>(D)) {
      O["dk"] = "func";
      O["qn"] = qname(F);
      O["key"] = fnKey(F);
    } else if (auto *EC = dyn_cast<EnumConstantDecl>(D)) {
      O["dk"] = "enumconst";
      O["qn"] = qname(EC);
      O["v"] = (int64_t)EC->getInitVal().getExtValue();
      if (auto *ED = dyn_cast<EnumDecl>(EC->getDeclContext()))
        O["enum"] = qname(ED);
    } else if (isa<FieldDecl>(D)) {
      O["dk"] = "field";
      O["qn"] = qname(D);
    } else {
      O["dk"] = "other";
      O["qn"] = qname(D);
    }
    return std::move(O);
  }

  void calleeInfo(json::Object &O, const FunctionDecl *FD) {
    if (!FD)
      return;
    O["callee"] = qname(FD);
    O["calleeKey"] = fnKey(FD);
    if (auto *M = dyn_cast<CXXMethodDecl>(FD)) {
      O["calleeClass"] = recName(M->getParent());
      if (M->isVirtual())
        O["calleeVirtual"] = true;
      if (M->isStatic())
        O["calleeStatic"] = true;
    }
    O["calleeFile"] = relFile(FD->getLocation());
    json::Array PT;
    for (const ParmVarDecl *P : FD->parameters())
      PT.push_back(typeStr(P->getType()));
    O["paramT"] = std::move(PT);
  }

  json::Value emit(const Stmt *S0, FnState &St) {
    if (!S0)
      return nullptr;
    const Stmt *S = skipTransparent(S0);
    int id = St.Next++;
    // all transparent wrappers map to the inner node's id
    for (const Stmt *W = S0; W && W != S;) {
      St.Ids[W] = id;
      if (auto *E = dyn_cast<ParenExpr>(W))
        W = E->getSubExpr();
      else if (auto *E = dyn_cast<ImplicitCastExpr>(W))
        W = E->getSubExpr();
      else if (auto *E = dyn_cast<ExprWithCleanups>(W))
        W = E->getSubExpr();
      else if (auto *E = dyn_cast<MaterializeTemporaryExpr>(W))
        W = E->getSubExpr();
      else if (auto *E = dyn_cast<CXXBindTemporaryExpr>(W))
        W = E->getSubExpr();
      else if (auto *E = dyn_cast<ConstantExpr>(W))
        W = E->getSubExpr();
      else
        break;
    }
    St.Ids[S] = id;

    json::Object O;
    O["id"] = id;
    O["k"] = S->getStmtClassName();
    O["line"] = lineOf(S->getBeginLoc());
    O["col"] = colOf(S->getBeginLoc());
    if (auto *E = dyn_cast<Expr>(S)) {
      O["t"] = typeStr(E->getType());
      if (E->isLValue())
        O["lv"] = true;
    }

    bool genericChildren = true;
    json::Array C;

    if (auto *E = dyn_cast<DeclRefExpr>(S)) {
      O["ref"] = declInfo(E->getDecl());
    } else if (auto *E = dyn_cast<MemberExpr>(S)) {
      const ValueDecl *MD = E->getMemberDecl();
      O["member"] = MD->getNameAsString();
      O["mk"] = isa<FieldDecl>(MD) ? "field" : (isa<CXXMethodDecl>(MD) ? "method" : "other");
      if (auto *R = ownerOf(MD))
        O["owner"] = recName(R);
      O["arrow"] = E->isArrow();
      if (E->hasQualifier())
        O["qual"] = true;   // Base::f() - non-virtual dispatch
      if (E->getBase())
        O["baseT"] = coreType(E->getBase()->getType());
    } else if (auto *E = dyn_cast<CXXConstructExpr>(S)) {
      const CXXConstructorDecl *CD = E->getConstructor();
      O["ctor"] = recName(CD->getParent());
      calleeInfo(O, CD);
      if (CD->isCopyOrMoveConstructor())
        O["copyOrMove"] = true;
    } else if (auto *E = dyn_cast<CallExpr>(S)) {
      calleeInfo(O, E->getDirectCallee());
      if (auto *MC = dyn_cast<CXXMemberCallExpr>(S)) {
        if (const Expr *Obj = MC->getImplicitObjectArgument())
          O["objT"] = coreType(Obj->getType());
      }
      if (auto *OC = dyn_cast<CXXOperatorCallExpr>(S)) {
        O["op"] = getOperatorSpelling(OC->getOperator());
        if (auto *FD = OC->getDirectCallee())
          O["memberOp"] = isa<CXXMethodDecl>(FD);
      }
    } else if (auto *E = dyn_cast<IntegerLiteral>(S)) {
      O["v"] = (int64_t)E->getValue().getLimitedValue();
    } else if (auto *E = dyn_cast<FloatingLiteral>(S)) {
      O["v"] = E->getValueAsApproximateDouble();
      // source spelling, to keep 1e3 vs 1000 distinctions out of the rules
    } else if (auto *E = dyn_cast<StringLiteral>(S)) {
      if (E->getCharByteWidth() == 1)
        O["v"] = E->getString().str();
    } else if (auto *E = dyn_cast<CharacterLiteral>(S)) {
      O["v"] = (int64_t)E->getValue();
    } else if (auto *E = dyn_cast<CXXBoolLiteralExpr>(S)) {
      O["v"] = E->getValue();
    } else if (auto *E = dyn_cast<BinaryOperator>(S)) {
      O["op"] = E->getOpcodeStr().str();
    } else if (auto *E = dyn_cast<UnaryOperator>(S)) {
      O["op"] = UnaryOperator::getOpcodeStr(E->getOpcode()).str();
      O["postfix"] = E->isPostfix();
    } else if (auto *E = dyn_cast<CastExpr>(S)) {
      O["castKind"] = E->getCastKindName();
      if (auto *X = dyn_cast<ExplicitCastExpr>(S))
        O["castTo"] = typeStr(X->getTypeAsWritten());
    } else if (auto *E = dyn_cast<CXXNewExpr>(S)) {
      O["array"] = E->isArray();
      O["allocT"] = typeStr(E->getAllocatedType());
    } else if (auto *E = dyn_cast<CXXDeleteExpr>(S)) {
      O["array"] = E->isArrayForm();
    } else if (auto *E = dyn_cast<UnaryExprOrTypeTraitExpr>(S)) {
      O["trait"] = (int)E->getKind();
      if (E->isArgumentType())
        O["argT"] = typeStr(E->getArgumentType());
    } else if (auto *D = dyn_cast<DeclStmt>(S)) {
      genericChildren = false;
      json::Array Ds;
      for (const Decl *X : D->decls()) {
        json::Object DO;
        if (auto *V = dyn_cast<VarDecl>(X)) {
          DO["name"] = V->getNameAsString();
          DO["decl"] = declId(V);
          DO["t"] = typeStr(V->getType());
          DO["line"] = lineOf(V->getLocation());
          if (V->isStaticLocal())
            DO["static"] = true;
          if (V->hasInit())
            DO["init"] = emit(V->getInit(), St);
        } else if (auto *N = dyn_cast<NamedDecl>(X)) {
          DO["name"] = N->getNameAsString();
          DO["other"] = X->getDeclKindName();
        }
        Ds.push_back(std::move(DO));
      }
      O["decls"] = std::move(Ds);
    } else if (auto *I = dyn_cast<IfStmt>(S)) {
      genericChildren = false;
      if (I->getInit())
        O["init"] = emit(I->getInit(), St);
      if (I->getConditionVariableDeclStmt())
        O["condvar"] = emit(I->getConditionVariableDeclStmt(), St);
      O["cond"] = emit(I->getCond(), St);
      O["then"] = emit(I->getThen(), St);
      if (I->getElse())
        O["else"] = emit(I->getElse(), St);
    } else if (auto *F = dyn_cast<ForStmt>(S)) {
      genericChildren = false;
      if (F->getInit())
        O["init"] = emit(F->getInit(), St);
      if (F->getCond())
        O["cond"] = emit(F->getCond(), St);
      if (F->getInc())
        O["inc"] = emit(F->getInc(), St);
      O["body"] = emit(F->getBody(), St);
    } else if (auto *F = dyn_cast<CXXForRangeStmt>(S)) {
      genericChildren = false;
      O["rangeStmt"] = emit(F->getRangeStmt(), St);
      if (F->getBeginStmt())
        O["beginStmt"] = emit(F->getBeginStmt(), St);
      if (F->getEndStmt())
        O["endStmt"] = emit(F->getEndStmt(), St);
      if (F->getCond())
        O["cond"] = emit(F->getCond(), St);
      if (F->getInc())
        O["inc"] = emit(F->getInc(), St);
      O["loopVar"] = emit(F->getLoopVarStmt(), St);
      O["body"] = emit(F->getBody(), St);
    } else if (auto *W = dyn_cast<WhileStmt>(S)) {
      genericChildren = false;
      O["cond"] = emit(W->getCond(), St);
      O["body"] = emit(W->getBody(), St);
    } else if (auto *W = dyn_cast<DoStmt>(S)) {
      genericChildren = false;
      O["body"] = emit(W->getBody(), St);
      O["cond"] = emit(W->getCond(), St);
    } else if (auto *W = dyn_cast<SwitchStmt>(S)) {
      genericChildren = false;
      O["cond"] = emit(W->getCond(), St);
      O["body"] = emit(W->getBody(), St);
    } else if (auto *K = dyn_cast<CaseStmt>(S)) {
      genericChildren = false;
      O["value"] = emit(K->getLHS(), St);
      Expr::EvalResult R;
      if (K->getLHS()->EvaluateAsInt(R, Ctx))
        O["v"] = (int64_t)R.Val.getInt().getExtValue();
      O["sub"] = emit(K->getSubStmt(), St);
    } else if (auto *K = dyn_cast<DefaultStmt>(S)) {
      genericChildren = false;
      O["sub"] = emit(K->getSubStmt(), St);
    } else if (auto *K = dyn_cast<CXXCatchStmt>(S)) {
      genericChildren = false;
      if (K->getExceptionDecl()) {
        O["excT"] = typeStr(K->getCaughtType());
        O["excDecl"] = declId(K->getExceptionDecl());
        O["excName"] = K->getExceptionDecl()->getNameAsString();
      } else {
        O["excT"] = "...";
      }
      O["body"] = emit(K->getHandlerBlock(), St);
    } else if (auto *G = dyn_cast<GotoStmt>(S)) {
      O["label"] = G->getLabel()->getNameAsString();
    } else if (auto *L = dyn_cast<LabelStmt>(S)) {
      O["label"] = L->getDecl()->getNameAsString();
    } else if (auto *L = dyn_cast<LambdaExpr>(S)) {
      genericChildren = false;
      O["body"] = emit(L->getBody(), St);
    }

    if (genericChildren) {
      for (const Stmt *Ch : S->children())
        C.push_back(emit(Ch, St));
      if (!C.empty())
        O["c"] = std::move(C);
    }
    return std::move(O);
  }

  json::Value emitCFG(const FunctionDecl *FD, FnState &St) {
    CFG::BuildOptions BO;
    BO.setAllAlwaysAdd();
    BO.AddEHEdges = false;
    BO.AddImplicitDtors = false;
    BO.AddTemporaryDtors = false;
    BO.AddInitializers = true;
    std::unique_ptr<CFG> G = CFG::buildCFG(FD, FD->getBody(), &Ctx, BO);
    if (!G)
      return nullptr;
    json::Object O;
    O["entry"] = (int)G->getEntry().getBlockID();
    O["exit"] = (int)G->getExit().getBlockID();
    json::Array Bs;
    for (const CFGBlock *B : *G) {
      json::Object BO2;
      BO2["id"] = (int)B->getBlockID();
      json::Array El;
      int last = -1;
      for (const CFGElement &E : *B) {
        if (auto SE = E.getAs<CFGStmt>()) {
          const Stmt *S = SE->getStmt();
          auto it = St.Ids.find(S);
          if (it != St.Ids.end()) {
            if (it->second != last)
              El.push_back(it->second);
            last = it->second;
          } else if (auto *DS = dyn_cast<DeclStmt>(S)) {
            // synthesised single-declaration DeclStmt
            if (DS->isSingleDecl()) {
              json::Object X;
              X["decl"] = declId(DS->getSingleDecl());
              El.push_back(std::move(X));
              last = -1;
            }
          }
        } else if (auto IE = E.getAs<CFGInitializer>()) {
          const CXXCtorInitializer *I = IE->getInitializer();
          json::Object X;
          if (I->getMember())
            X["initField"] = I->getMember()->getNameAsString();
          El.push_back(std::move(X));
          last = -1;
        }
      }
      BO2["el"] = std::move(El);
      json::Array Su;
      for (auto SI = B->succ_begin(); SI != B->succ_end(); ++SI) {
        const CFGBlock *T = SI->getReachableBlock();
        if (T) {
          Su.push_back((int)T->getBlockID());
        } else if ((T = SI->getPossiblyUnreachableBlock())) {
          // edge pruned by constant condition: keep, flagged negative
          Su.push_back(-(int)T->getBlockID() - 1);
        } else {
          Su.push_back(nullptr);
        }
      }
      BO2["succ"] = std::move(Su);
      if (const Stmt *T = B->getTerminatorStmt()) {
        auto it = St.Ids.find(T);
        if (it != St.Ids.end())
          BO2["term"] = it->second;
        BO2["termK"] = T->getStmtClassName();
      }
      if (const Stmt *T = B->getTerminatorCondition()) {
        auto it = St.Ids.find(T);
        if (it != St.Ids.end())
          BO2["cond"] = it->second;
      }
      if (const Stmt *L = B->getLabel()) {
        auto it = St.Ids.find(L);
        if (it != St.Ids.end())
          BO2["label"] = it->second;
      }
      if (B->hasNoReturnElement())
        BO2["noreturn"] = true;
      Bs.push_back(std::move(BO2));
    }
    O["blocks"] = std::move(Bs);
    return std::move(O);
  }

  // ---------------------------------------------------------------- decls
  bool selected(SourceLocation L, std::string &Rel) {
    Rel = relFile(L);
    if (Rel.empty())
      return false;
    return Filter.match(Rel);
  }

  void handleFunction(const FunctionDecl *FD) {
    if (!FD->doesThisDeclarationHaveABody())
      return;
    if (FD->isDependentContext())
      return;
    if (FD->isDefaulted() || FD->isDeleted())
      return;
    std::string Rel;
    SourceLocation DefLoc = FD->getBody() ? FD->getBody()->getBeginLoc() : FD->getLocation();
    if (!selected(DefLoc, Rel))
      return;
    std::string Key = fnKey(FD);
    if (!SeenFn.insert(Key).second)
      return;

    json::Object O;
    O["key"] = Key;
    O["qn"] = qname(FD);
    O["qnt"] = qnameT(FD);
    O["name"] = FD->getNameAsString();
    O["file"] = Rel;
    O["line"] = lineOf(DefLoc);
    O["endline"] = lineOf(FD->getBody() ? FD->getBody()->getEndLoc() : FD->getEndLoc());
    O["declFile"] = relFile(FD->getLocation());
    O["ret"] = typeStr(FD->getReturnType());
    O["inst"] = FD->isTemplateInstantiation();
    if (auto *M = dyn_cast<CXXMethodDecl>(FD)) {
      O["class"] = recName(M->getParent());
      O["classT"] = qnameT(M->getParent());
      O["virtual"] = M->isVirtual();
      O["const"] = M->isConst();
      O["static"] = M->isStatic();
      O["access"] = (int)M->getAccess();
      O["ctor"] = isa<CXXConstructorDecl>(M);
      O["dtor"] = isa<CXXDestructorDecl>(M);
      json::Array Ov;
      for (const CXXMethodDecl *B : M->overridden_methods()) {
        json::Object X;
        X["class"] = recName(B->getParent());
        X["key"] = fnKey(B);
        X["pure"] = B->isPure();
        Ov.push_back(std::move(X));
      }
      O["overrides"] = std::move(Ov);
    }
    json::Array Ps;
    for (const ParmVarDecl *P : FD->parameters()) {
      json::Object X;
      X["name"] = P->getNameAsString();
      X["decl"] = declId(P);
      X["t"] = typeStr(P->getType());
      Ps.push_back(std::move(X));
    }
    O["params"] = std::move(Ps);

    if (!OptNoBody) {
      FnState St;
      // constructor initialisers
      if (auto *CD = dyn_cast<CXXConstructorDecl>(FD)) {
        json::Array Inits;
        for (const CXXCtorInitializer *I : CD->inits()) {
          json::Object X;
          if (I->getMember())
            X["field"] = I->getMember()->getNameAsString();
          else if (I->isBaseInitializer())
            X["base"] = typeStr(QualType(I->getBaseClass(), 0));
          X["written"] = I->isWritten();
          X["init"] = emit(I->getInit(), St);
          Inits.push_back(std::move(X));
        }
        O["inits"] = std::move(Inits);
      }
      O["body"] = emit(FD->getBody(), St);
      O["cfg"] = emitCFG(FD, St);
    }
    Functions.push_back(std::move(O));
  }

  void handleRecord(const CXXRecordDecl *R) {
    if (!R->isThisDeclarationADefinition() || R->isDependentContext())
      return;
    if (R->isLambda() || R->isInjectedClassName())
      return;
    std::string Rel;
    if (relFile(R->getLocation()).empty())
      return;
    Rel = relFile(R->getLocation());
    std::string K = qnameT(R);
    if (!SeenCls.insert(K).second)
      return;
    json::Object O;
    O["qn"] = recName(R);
    O["qnt"] = K;
    O["file"] = Rel;
    O["line"] = lineOf(R->getLocation());
    O["abstract"] = R->isAbstract();
    O["inst"] = isa<ClassTemplateSpecializationDecl>(R);
    json::Array Bs;
    for (const CXXBaseSpecifier &B : R->bases()) {
      json::Object X;
      X["t"] = typeStr(B.getType());
      if (auto *BR = B.getType()->getAsCXXRecordDecl()) {
        X["qn"] = recName(BR);
        X["qnt"] = qnameT(BR);
      }
      X["virtual"] = B.isVirtual();
      X["access"] = (int)B.getAccessSpecifier();
      Bs.push_back(std::move(X));
    }
    O["bases"] = std::move(Bs);
    json::Array Fs;
    for (const FieldDecl *F : R->fields()) {
      json::Object X;
      X["name"] = F->getNameAsString();
      X["t"] = typeStr(F->getType());
      X["access"] = (int)F->getAccess();
      X["line"] = lineOf(F->getLocation());
      if (F->hasInClassInitializer())
        X["hasInit"] = true;
      if (auto *AT = Ctx.getAsConstantArrayType(F->getType()))
        X["arraySize"] = (int64_t)AT->getSize().getLimitedValue();
      Fs.push_back(std::move(X));
    }
    O["fields"] = std::move(Fs);
    json::Array Ms;
    for (const CXXMethodDecl *M : R->methods()) {
      if (M->isImplicit())
        continue;
      json::Object X;
      X["name"] = M->getNameAsString();
      X["key"] = fnKey(M);
      X["virtual"] = M->isVirtual();
      X["pure"] = M->isPure();
      X["const"] = M->isConst();
      X["access"] = (int)M->getAccess();
      X["deleted"] = M->isDeleted();
      X["line"] = lineOf(M->getLocation());
      json::Array Ps;
      for (const ParmVarDecl *P : M->parameters())
        Ps.push_back(typeStr(P->getType()));
      X["params"] = std::move(Ps);
      json::Array Ov;
      for (const CXXMethodDecl *B : M->overridden_methods())
        Ov.push_back(recName(B->getParent()));
      X["overrides"] = std::move(Ov);
      Ms.push_back(std::move(X));
    }
    O["methods"] = std::move(Ms);
    Classes.push_back(std::move(O));
  }

  void handleEnum(const EnumDecl *E) {
    if (!E->isThisDeclarationADefinition())
      return;
    if (E->getDeclContext()->isDependentContext())
      return;
    std::string Rel = relFile(E->getLocation());
    if (Rel.empty())
      return;
    std::string K = qnameT(E) + "@" + Rel + ":" + std::to_string(lineOf(E->getLocation()));
    if (!SeenEnum.insert(K).second)
      return;
    json::Object O;
    O["qn"] = qname(E);
    O["file"] = Rel;
    O["line"] = lineOf(E->getLocation());
    json::Array Es;
    for (const EnumConstantDecl *C : E->enumerators()) {
      json::Object X;
      X["name"] = C->getNameAsString();
      X["v"] = (int64_t)C->getInitVal().getExtValue();
      Es.push_back(std::move(X));
    }
    O["enumerators"] = std::move(Es);
    Enums.push_back(std::move(O));
  }

  void handleGlobal(const VarDecl *V) {
    if (V->isLocalVarDecl() || isa<ParmVarDecl>(V))
      return;
    if (!V->hasInit() || V->getDeclContext()->isDependentContext())
      return;
    if (V->getType()->isDependentType())
      return;
    std::string Rel;
    if (!selected(V->getLocation(), Rel))
      return;
    const VarDecl *Def = V->getDefinition();
    if (Def && Def != V)
      return;
    std::string K = qname(V) + "@" + Rel;
    if (!SeenGlob.insert(K).second)
      return;
    json::Object O;
    O["qn"] = qname(V);
    O["file"] = Rel;
    O["line"] = lineOf(V->getLocation());
    O["t"] = typeStr(V->getType());
    if (auto *AT = Ctx.getAsConstantArrayType(V->getType()))
      O["arraySize"] = (int64_t)AT->getSize().getLimitedValue();
    FnState St;
    O["init"] = emit(V->getInit(), St);
    Globals.push_back(std::move(O));
  }
};

class Visitor : public RecursiveASTVisitor<Visitor> {
public:
  Exporter &X;
  explicit Visitor(Exporter &E) : X(E) {}
  bool shouldVisitTemplateInstantiations() const { return true; }
  bool shouldVisitImplicitCode() const { return false; }
  bool VisitFunctionDecl(FunctionDecl *FD) {
    X.handleFunction(FD);
    return true;
  }
  bool VisitCXXRecordDecl(CXXRecordDecl *R) {
    X.handleRecord(R);
    return true;
  }
  bool VisitEnumDecl(EnumDecl *E) {
    X.handleEnum(E);
    return true;
  }
  bool VisitVarDecl(VarDecl *V) {
    X.handleGlobal(V);
    return true;
  }
};

class Consumer : public ASTConsumer {
public:
  void HandleTranslationUnit(ASTContext &Ctx) override {
    if (Ctx.getDiagnostics().hasErrorOccurred()) {
      llvm::errs() << "gamafacts: translation unit has errors\n";
      Failed = true;
    }
    Exporter E(Ctx);
    Visitor V(E);
    V.TraverseDecl(Ctx.getTranslationUnitDecl());
    json::Object Top;
    Top["functions"] = std::move(E.Functions);
    Top["classes"] = std::move(E.Classes);
    Top["enums"] = std::move(E.Enums);
    Top["globals"] = std::move(E.Globals);
    Top["errors"] = Failed;
    std::error_code EC;
    llvm::raw_fd_ostream OS(OptOut, EC);
    if (EC) {
      llvm::errs() << "gamafacts: cannot write " << OptOut << "\n";
      Failed = true;
      return;
    }
    OS << json::Value(std::move(Top)) << "\n";
  }
  static bool Failed;
};
bool Consumer::Failed = false;

class Action : public ASTFrontendAction {
public:
  std::unique_ptr<ASTConsumer> CreateASTConsumer(CompilerInstance &, StringRef) override {
    return std::make_unique<Consumer>();
  }
};

} // namespace

int main(int argc, const char **argv) {
  auto Exp = CommonOptionsParser::create(argc, argv, Cat);
  if (!Exp) {
    llvm::errs() << llvm::toString(Exp.takeError());
    return 2;
  }
  ClangTool Tool(Exp->getCompilations(), Exp->getSourcePathList());
  int rc = Tool.run(newFrontendActionFactory<Action>().get());
  if (rc != 0 || Consumer::Failed)
    return 2;
  return 0;
}
