// g3::Model::update_linearization() called twice on one model (a public member; a second linearisation is
// what any iterative use of the model does): before the fix the design matrix is freed twice, because
// adj_input_data->set_mat(A) hands A over to AdjInputData while Model keeps the pointer and deletes it again.
#include <gnu_gama/g3/g3_model.h>
#include <gnu_gama/xml/dataparser.h>
#include <fstream>
#include <iostream>
#include <list>
int main(int argc, char* argv[])
{
  using namespace GNU_gama;
  std::list<DataObject::Base*> objects;
  DataParser parser(objects);
  std::ifstream in(argv[1]);
  std::string line;
  try {
    while (std::getline(in, line)) { line += '\n'; parser.xml_parse(line.c_str(), int(line.length()), 0); }
    parser.xml_parse("", 0, 1);
  } catch (...) { std::cout << "parse error\n"; return 2; }
  g3::Model* model = nullptr;
  for (auto* o : objects) if (auto* m = dynamic_cast<DataObject::g3_model*>(o)) model = m->model;
  if (!model) { std::cout << "no model\n"; return 2; }
  model->update_linearization();
  std::cout << "first linearisation done" << std::endl;
  model->update_linearization();
  std::cout << "second linearisation done" << std::endl;
  model->update_adjustment();
  std::cout << "adjusted" << std::endl;
  return 0;
}
