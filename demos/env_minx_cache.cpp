// AdjEnvelope: q_xx after min_x(new subset) must not answer from rows cached under the old subset
#include <gnu_gama/adj/adj_envelope.h>
#include <gnu_gama/adj/adj_input_data.h>
#include <iostream>
#include <cmath>
#include <vector>
using namespace GNU_gama;
typedef Exception::matvec E;
int main()
{
  const int M=8, N=6;   // column 6 = column 1 + column 5 -> defect 1, null vector (1,0,0,0,1,-1)
  double a[M][N] = {
    {1,0,0,0, 1, 2}, {0,1,0,0, 2, 2}, {0,0,1,0, 1, 1}, {0,0,0,1, 3, 3},
    {1,1,0,0, 0, 1}, {0,1,1,0, 1, 1}, {0,0,1,1, 0, 0}, {1,0,0,1, 2, 3}};
  int nz=0; for (int i=0;i<M;i++) for(int j=0;j<N;j++) if (a[i][j]!=0) nz++;
  SparseMatrix<>* sm = new SparseMatrix<>(nz, M, N);
  for (int i=0;i<M;i++){ sm->new_row(); for(int j=0;j<N;j++) if (a[i][j]!=0) sm->add_element(a[i][j], j+1); }
  BlockDiagonal<>* bd = new BlockDiagonal<>(1, M);
  std::vector<double> ones(M, 1.0); bd->add_block(M, 0, ones.data());
  Vec<> rhs(M); for (int i=1;i<=M;i++) rhs(i) = i*0.5 + (i%3);
  AdjInputData data; data.set_mat(sm); data.set_cov(bd); data.set_rhs(rhs);
  int all[] = {1,2,3,4,5,6}; int sub[] = {5,6};
  AdjEnvelope<double,int,E> e1; e1.reset(&data); e1.min_x(6, all);
  bool ok = true;
  for (int i=1;i<=N && ok;i++) for (int j=1;j<=N && ok;j++) {
    AdjEnvelope<double,int,E> e1; e1.reset(&data); e1.min_x(6, all);
    double before = e1.q_xx(i,j);
    e1.min_x(2, sub);                       // history: regularisation changed after a query
    double after  = e1.q_xx(i,j);
    AdjEnvelope<double,int,E> e2; e2.reset(&data); e2.min_x(2, sub);
    double fresh  = e2.q_xx(i,j);
    if (std::abs(after - fresh) > 1e-10) {
      std::cout << "q_xx(" << i << "," << j << "): subset all " << before << ", after min_x(sub) " << after << ", fresh object " << fresh << "\n";
      ok = false;
    }
  }
  std::cout << (ok ? "PASS" : "FAIL: answer depends on the query history") << "\n";
  return ok ? 0 : 1;
}
