// A copy of a g3::Point must be the same point: geodetic coordinates B,L,H and the has_geoid flag.
#include <gnu_gama/g3/g3_model.h>
#include <gnu_gama/g3/g3_point.h>
#include <cmath>
#include <iostream>
using namespace GNU_gama::g3;
int main()
{
  Model model;
  Point p;
  p.common = &model;
  p.set_xyz(3980000.0, 1020000.0, 4860000.0);
  p.set_geoid(42.5);
  Point q(p);            // copy constructor
  Point r; r = p;        // copy assignment
  int bad = 0;
  auto cmp = [&](const char* what, double a, double b) {
    if (!(std::abs(a-b) <= 1e-12*std::max(1.0, std::abs(a)))) { std::cout << what << ": source " << a << " copy " << b << "\n"; bad++; }
  };
  cmp("ctor B", p.B.init_value(), q.B.init_value());
  cmp("ctor L", p.L.init_value(), q.L.init_value());
  cmp("ctor H", p.H.init_value(), q.H.init_value());
  cmp("assign B", p.B.init_value(), r.B.init_value());
  cmp("assign L", p.L.init_value(), r.L.init_value());
  cmp("assign H", p.H.init_value(), r.H.init_value());
  if (p.has_geoid() != q.has_geoid()) { std::cout << "ctor has_geoid differs\n"; bad++; }
  if (p.has_geoid() != r.has_geoid()) { std::cout << "assign has_geoid differs\n"; bad++; }
  std::cout << (bad ? "BROKEN" : "OK") << ": " << bad << " differences between a g3::Point and its copy\n";
  return bad ? 1 : 0;
}
