#!/bin/bash
# run_demo.sh <source-tree with _build> : exit 0 = a copied g3::Point equals its source
T=${1:-/repo}; D=$(mktemp -d /tmp/g3pc_XXXX); trap 'rm -rf $D' EXIT
OBJ=$(find $T/_build/CMakeFiles/libgama.dir -name "*.o")
g++ -std=gnu++17 -I$T/lib -I$T/_build -I$T $(dirname $0)/demo.cpp $OBJ -lexpat -o $D/demo 2>$D/err || { tail -5 $D/err; exit 2; }
$D/demo
