// F06 / F08: index spaces in AdjEnvelope (lindep without invp; one cache used with two key spaces)
// The dense AdjCholDec solver on the same (homogenised, unit weights) system is the reference.
#include <gnu_gama/adj/adj_envelope.h>
#include <gnu_gama/adj/adj_chol.h>
#include <gnu_gama/adj/adj_input_data.h>
#include <iostream>
#include <cmath>
#include <vector>
using namespace GNU_gama;
typedef Exception::matvec E;

int main()
{
  // 8 observations, 6 unknowns; columns 5 and 6 are identical -> defect 1 (one of 5,6 dependent)
  const int M=8, N=6;
  double a[M][N] = {
    {1,0,0,0, 1, 1}, {0,1,0,0, 2, 2}, {0,0,1,0, 1, 1}, {0,0,0,1, 3, 3},
    {1,1,0,0, 0, 0}, {0,1,1,0, 1, 1}, {0,0,1,1, 0, 0}, {1,0,0,1, 2, 2}};
  int nz=0; for (int i=0;i<M;i++) for(int j=0;j<N;j++) if (a[i][j]!=0) nz++;
  SparseMatrix<>* sm = new SparseMatrix<>(nz, M, N);
  for (int i=0;i<M;i++){ sm->new_row(); for(int j=0;j<N;j++) if (a[i][j]!=0) sm->add_element(a[i][j], j+1); }
  BlockDiagonal<>* bd = new BlockDiagonal<>(1, M);
  std::vector<double> ones(M, 1.0);
  bd->add_block(M, 0, ones.data());
  Vec<> rhs(M); for (int i=1;i<=M;i++) rhs(i) = i*0.5 + (i%3);
  AdjInputData data; data.set_mat(sm); data.set_cov(bd); data.set_rhs(rhs);

  Mat<double,int,E> A(M,N); Vec<double,int,E> b(M);
  for (int i=1;i<=M;i++){ b(i)=rhs(i); for(int j=1;j<=N;j++) A(i,j)=a[i-1][j-1]; }

  int fail = 0;
  { // lindep: the flagged unknowns must be among the dependent pair {5,6} and their number == defect
    AdjEnvelope<double,int,E> env; env.reset(&data);
    int cnt=0; bool outside=false;
    for (int i=1;i<=N;i++) if (env.lindep(i)) { cnt++; if (i<5) outside=true; std::cout << "envelope flags unknown " << i << "\n"; }
    if (env.defect()!=1 || cnt!=1 || outside) { std::cout << "FAIL lindep: defect " << env.defect() << " flagged " << cnt << (outside?" (outside the dependent pair)":"") << "\n"; fail++; }
  }
  { // q0_xx must not depend on earlier q_xx queries (shared cache)
    AdjEnvelope<double,int,E> e1; e1.reset(&data);
    AdjEnvelope<double,int,E> e2; e2.reset(&data);
    double worst = 0;
    for (int i=1;i<=N;i++) for (int j=1;j<=N;j++) e2.q_xx(i,j);          // history on e2 only
    for (int i=1;i<=N;i++) for (int j=1;j<=N;j++) {
      double d = std::abs(e1.q0_xx(i,j) - e2.q0_xx(i,j));
      if (d > worst) worst = d;
    }
    if (worst > 1e-10) { std::cout << "FAIL q0_xx differs after a q_xx sweep by " << worst << "\n"; fail++; }
    // and q_xx must not depend on earlier q0_xx queries
    AdjEnvelope<double,int,E> e3; e3.reset(&data);
    AdjEnvelope<double,int,E> e4; e4.reset(&data);
    for (int i=1;i<=N;i++) for (int j=1;j<=N;j++) e4.q0_xx(i,j);
    worst = 0;
    for (int i=1;i<=N;i++) for (int j=1;j<=N;j++) {
      double d = std::abs(e3.q_xx(i,j) - e4.q_xx(i,j));
      if (d > worst) worst = d;
    }
    if (worst > 1e-10) { std::cout << "FAIL q_xx differs after a q0_xx sweep by " << worst << "\n"; fail++; }
  }
  std::cout << (fail ? "FAIL" : "PASS") << "\n";
  return fail ? 1 : 0;
}
