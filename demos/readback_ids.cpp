// reads an adjustment XML with gama's own reader; prints point ids and the from/to/extern of observations
#include <gnu_gama/xml/localnetwork_adjustment_results.h>
#include <fstream>
#include <iostream>
int main(int argc, char* argv[])
{
  GNU_gama::LocalNetworkAdjustmentResults res;
  std::ifstream f(argv[1]);
  try { res.read_xml(f); } catch (...) { std::cout << "READ FAILED\n"; return 1; }
  for (auto& p : res.fixed_points) std::cout << "fixed [" << p.id << "]\n";
  for (auto& p : res.adjusted_points) std::cout << "adjusted [" << p.id << "]\n";
  for (auto& o : res.obslist) std::cout << o.xml_tag << " from [" << o.from << "] to [" << o.to << "]"
#ifdef HAS_EXT
                                        << " extern [" << o.ext << "]"
#endif
                                        << "\n";
  return 0;
}
