// F18: non-conforming operands must raise Exception::matvec (BadRank) instead of reading outside the operands
#include <matvec/matvec.h>
#include <matvec/covmat.h>
#include <matvec/bandmat.h>
#include <matvec/symmat.h>
#include <matvec/svd.h>
#include <iostream>
using namespace GNU_gama;
template <class F> int expect_badrank(const char* what, F f)
{
  try { f(); }
  catch (const Exception::matvec& e) { if (e.error() == Exception::BadRank) return 0; }
  catch (...) {}
  std::cout << "no BadRank from " << what << "\n";
  return 1;
}
int main()
{
  int fail = 0;
  CovMat<> C(5,1); C.set_zero(); for (int i=1;i<=5;i++) C(i,i)=4;
  BandMat<> B(5,1); B.set_zero(); for (int i=1;i<=5;i++) B(i,i)=4;
  SymMat<> S(5); S.set_zero(); for (int i=1;i<=5;i++) S(i,i)=4;
  Vec<> v2(2); v2.set_zero();
  fail += expect_badrank("CovMat*Vec",   [&]{ Vec<> t = C*v2; (void)t; });
  fail += expect_badrank("BandMat*Vec",  [&]{ Vec<> t = B*v2; (void)t; });
  fail += expect_badrank("CovMat::solve", [&]{ Vec<> r(2); r.set_zero(); C.solve(r); });
  fail += expect_badrank("BandMat::solve",[&]{ Vec<> r(2); r.set_zero(); B.solve(r); });
  fail += expect_badrank("SymMat::solve", [&]{ Vec<> r(2); r.set_zero(); S.solve(r); });
  Mat<> A(4,2); A.set_zero(); A(1,1)=1; A(2,2)=1; A(3,1)=2; A(4,2)=3;
  fail += expect_badrank("SVD::solve",   [&]{ SVD<> s(A); Vec<> rhs(2), x; rhs.set_zero(); s.solve(rhs, x); });
  fail += expect_badrank("SVD::reset(A,w)", [&]{ SVD<> s; Vec<> w(2); w.set_all(1); s.reset(A, w); });
  std::cout << (fail ? "FAIL" : "PASS") << "\n";
  return fail;
}
