// demonstration for F09/F19/F20: query order / history independence of the dense solvers
#include <gnu_gama/adj/adj_chol.h>
#include <gnu_gama/adj/adj_gso.h>
#include <gnu_gama/adj/adj_svd.h>
#include <gnu_gama/adj/adj_envelope.h>
#include <iostream>
#include <cmath>
using namespace GNU_gama;
typedef Exception::matvec E;
template <class S> int test(const char* name)
{
  int fail = 0;
  // singular 4x3 system: columns 2 and 3 equal -> defect 1
  Mat<double,int,E> A(4,3); Vec<double,int,E> b(4);
  double a[4][3] = {{1,1,1},{1,2,2},{1,3,3},{1,4,4}};
  for (int i=1;i<=4;i++){ for(int j=1;j<=3;j++) A(i,j)=a[i-1][j-1]; b(i)=i*i; }
  { S s; s.reset(A,b); int d = s.defect();              // defect() first
    if (d != 1) { std::cout << name << ": defect() before any other query = " << d << " (expected 1)" << std::endl; fail++; } }
  { S s; s.reset(A,b); bool l2 = s.lindep(2), l3 = s.lindep(3);
    if (!(l2 || l3)) { std::cout << name << ": lindep() before solve flags nothing" << std::endl; fail++; } }
  { // min_x after a solve must take effect
    int all[] = {1,2,3}; int sub[] = {1,2};
    S s1; s1.reset(A,b); s1.min_x(3, all); Vec<double,int,E> x1 = s1.unknowns();
    s1.min_x(2, sub); Vec<double,int,E> x1b = s1.unknowns();
    S s2; s2.reset(A,b); s2.min_x(2, sub); Vec<double,int,E> x2 = s2.unknowns();
    double d = 0; for (int i=1;i<=3;i++) d += std::abs(x1b(i)-x2(i));
    if (d > 1e-8) { std::cout << name << ": unknowns after min_x(all);solve;min_x(sub) differ from fresh min_x(sub) by " << d << "" << std::endl; fail++; } }
  return fail;
}
int main()
{
  int f = 0;
  f += test<AdjCholDec<double,int,E>>("cholesky");
  f += test<AdjGSO<double,int,E>>("gso");
  f += test<AdjSVD<double,int,E>>("svd");
  std::cout << (f ? "FAIL" : "PASS") << " (" << f << ")\n";
  return f ? 1 : 0;
}
