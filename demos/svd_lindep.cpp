// F07 (known finding): AdjSVD::lindep(i) tests the i-th singular value, not unknown i.
// Systems with column 3 = column 1 + column 4: the dependent unknown must be one of {1,3,4}.
#include <gnu_gama/adj/adj_svd.h>
#include <iostream>
using namespace GNU_gama;
typedef Exception::matvec E;
int main()
{
  const int M=10, N=6;
  unsigned long s = 12345;
  int bad = 0, cases = 0, firstbad = -1, firstflag = 0;
  for (int t=0; t<200; t++) {
    Mat<double,int,E> A(M,N); Vec<double,int,E> b(M);
    for (int i=1;i<=M;i++) { for (int j=1;j<=N;j++) { s = s*6364136223846793005UL + 1442695040888963407UL; A(i,j) = double((s>>33)%2001)/1000.0 - 1.0; }
                              s = s*6364136223846793005UL + 1442695040888963407UL; b(i) = double((s>>33)%2001)/1000.0; }
    for (int i=1;i<=M;i++) A(i,3) = A(i,1) + A(i,4);
    AdjSVD<double,int,E> svd; svd.reset(A,b);
    if (svd.defect() != 1) continue;
    cases++;
    for (int i=1;i<=N;i++) if (svd.lindep(i) && i!=1 && i!=3 && i!=4) { bad++; if (firstbad<0) { firstbad=t; firstflag=i; } }
  }
  std::cout << cases << " systems with defect 1, svd flagged an unknown outside {1,3,4} in " << bad << "\n";
  if (bad) std::cout << "first: system #" << firstbad << " flags unknown " << firstflag << "\n";
  std::cout << (bad ? "FAIL\n" : "PASS\n");
  return bad ? 1 : 0;
}
