#!/bin/bash
# run_demo.sh <source-tree> : header-only; exit 0 = the copy carries the defect
T=${1:-/repo}; D=$(mktemp -d /tmp/envc_XXXX); trap 'rm -rf $D' EXIT
g++ -std=gnu++17 -I$T/lib $(dirname $0)/demo.cpp -o $D/demo 2>$D/err || { tail -5 $D/err; exit 2; }
$D/demo
