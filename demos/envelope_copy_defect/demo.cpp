// A copy of a factorised envelope must report the same defect (number of dependent pivots) as its source.
#include <gnu_gama/sparse/sbdiagonal.h>
#include <gnu_gama/adj/envelope.h>
#include <iostream>
int main()
{
  using namespace GNU_gama;
  BlockDiagonal<double,int> bd(1, 3);
  double m[] = {1, 1, 1};            // 2x2 block [[1,1],[1,1]], packed: row 1 = {1,1}, row 2 = {1}: singular
  bd.add_block(2, 1, m);
  Envelope<double,int> e(bd);
  e.cholDec();
  Envelope<double,int> c(e);                   // copy constructor
  Envelope<double,int> a; a = e;               // copy assignment
  std::cout << "defect: source " << e.defect() << ", copy-constructed " << c.defect()
            << ", assigned " << a.defect() << "\n";
  bool ok = e.defect() == 1 && c.defect() == e.defect() && a.defect() == e.defect();
  std::cout << (ok ? "OK" : "BROKEN: the copy of a factorised singular envelope lost its defect") << "\n";
  return ok ? 0 : 1;
}
