// F10 family: new[]/delete pairing and dangling owners (run under ASan)
#include <gnu_gama/adj/adj_chol.h>
#include <iostream>
using namespace GNU_gama;
typedef Exception::matvec E;
int main()
{
  Mat<double,int,E> A(3,2); Vec<double,int,E> b(3);
  A(1,1)=1;A(1,2)=0;A(2,1)=0;A(2,2)=1;A(3,1)=1;A(3,2)=1; b(1)=1;b(2)=2;b(3)=3;
  int l[2] = {1,2};
  {
    AdjCholDec<double,int,E> c; c.reset(A,b);
    c.min_x(2, l);
    c.min_x();          // deletes minx_i ...
  }                     // ... and the destructor deleted it again
  std::cout << "PASS\n";
  return 0;
}
