// SVD::min_x() after min_x(n, list) on a full-rank matrix: before the fix V_ is overwritten by the never-set
// backup minV (which svd() fills for singular systems only) and the next query reads through dangling rows.
#include <matvec/svd.h>
#include <iostream>
int main()
{
  using namespace GNU_gama;
  Mat<> A(3,2);
  A(1,1)=1; A(1,2)=0; A(2,1)=0; A(2,2)=1; A(3,1)=1; A(3,2)=1;
  Vec<> b(3); b(1)=1; b(2)=2; b(3)=3.1;
  SVD<> svd(A);
  Vec<> x; svd.solve(b, x);
  std::cout << "x = " << x(1) << " " << x(2) << "\n";
  int list[] = {1};
  svd.min_x(1, list);
  svd.min_x();                       // back to 'all'
  Vec<> y; svd.solve(b, y);
  std::cout << "y = " << y(1) << " " << y(2) << "\n";
  double q = svd.q_xx(1,1);
  std::cout << "q_xx(1,1) = " << q << "\n";
  return (y(1) == x(1) && y(2) == x(2)) ? 0 : 1;
}
