// F20: SVD::tol(t) before the decomposition read the uninitialised work pointers W / inv_W
#include <matvec/svd.h>
#include <iostream>
using namespace GNU_gama;
int main()
{
  Mat<> A(3,2); A(1,1)=1;A(1,2)=2;A(2,1)=3;A(2,2)=4;A(3,1)=5;A(3,2)=7;
  SVD<> svd(A);
  svd.tol(1e-12);             // history: tolerance set before any query
  std::cout << "nullity " << svd.nullity() << "\n";
  return svd.nullity() == 0 ? 0 : 1;
}
