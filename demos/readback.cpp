// reads an adjustment XML with gama's own reader and prints the point ids
#include <gnu_gama/xml/localnetwork_adjustment_results.h>
#include <fstream>
#include <iostream>
int main(int argc, char* argv[])
{
  GNU_gama::LocalNetworkAdjustmentResults res;
  std::ifstream f(argv[1]);
  try { res.read_xml(f); } catch (...) { std::cout << "READ FAILED\n"; return 1; }
  for (auto& p : res.fixed_points) std::cout << "fixed [" << p.id << "]\n";
  for (auto& p : res.adjusted_points) std::cout << "adjusted [" << p.id << "]\n";
  std::cout << "description [" << res.description << "]\n";
  return 0;
}
